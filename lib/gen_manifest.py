#!/usr/bin/env python3
"""Regenerates MANIFEST.json from lib/props.py + lib/manifest_meta.py (kept valid at all times)."""
import json, os, sys
sys.path.insert(0, os.path.dirname(os.path.abspath(__file__)))
import manifest_meta as MM

def main():
    checks = []
    for pid in sorted(MM.CLAIMED):
        c = MM.CLAIMED[pid]
        checks.append(dict(
            property_id=pid,
            quick_cmd="./check %s --tier quick" % pid,
            thorough_cmd="./check %s --tier thorough" % pid,
            evidence_file="evidence/%s.json" % pid,
            replay_cmd_template="./check %s --replay {path}" % pid,
            engine=c["engine"],
            level_claimed=dict(category="model_checking", text=c["text"], design_ref=c["design_ref"]),
            level_note=c["note"],
            technique=c["technique"],
        ))
    man = dict(
        version=1,
        setup_cmd="./setup.sh",
        hooks=MM.HOOKS,
        engines=MM.ENGINES,
        checks=checks,
        notes=MM.NOTES,
        not_applicable=[dict(property_id=k, reason=v) for k, v in sorted(MM.NOT_APPLICABLE.items())],
    )
    with open(os.path.join(os.path.dirname(os.path.dirname(os.path.abspath(__file__))), "MANIFEST.json"), "w") as f:
        json.dump(man, f, indent=1)
        f.write("\n")
    ids = set(MM.CLAIMED) | set(MM.NOT_APPLICABLE)
    allp = {"C%02d" % i for i in range(1, 21)}
    assert ids == allp and not (set(MM.CLAIMED) & set(MM.NOT_APPLICABLE)), (allp - ids, set(MM.CLAIMED) & set(MM.NOT_APPLICABLE))
    print("MANIFEST.json written: %d checks, %d not applicable" % (len(checks), len(MM.NOT_APPLICABLE)))

main()
