"""Hand-maintained manifest metadata (see gen_manifest.py)."""

HOOKS = dict(
    guard="cfg(kani) / cfg(folo_verif)",
    enable="Kani sets cfg(kani) itself (cargo kani); native replays build with RUSTFLAGS='--cfg folo_verif' and FOLO_VERIF_DIR=/verif",
    baseline_off_cmd="cd /repo && cargo nextest run --workspace --no-fail-fast --tool-config-file pb:/w/lib/nextest.toml --profile pb --test-threads 8 --offline || cargo test --workspace --no-fail-fast --offline",
    source_commits=["c13769c", "f72257d", "bd85f32", "a238489", "f66556c", "364127b", "4acd1a0", "a199ee3"],
    add_only=True,
)

ENGINES = [
    dict(name="mirsym", path="lib/mirsym/sym.py", serves_properties=["C09", "C11", "C20"],
         kind_free_text="MIR -> SMT symbolic execution of loop-free integer fragments (a closure body, a block range of a larger function): path enumeration over the nightly compiler's MIR of the real code, "
                        "u32 inputs as z3 bit-vectors, core integer / Option methods by their documented semantics, formatting calls recorded as events; each path's panic-freedom and post-condition is one z3 query over ALL input values; "
                        "satisfying assignments are replayed through the public API of the real crate (dev and release) before a violation is reported"),
    dict(name="mirproto", path="lib/mirproto_engine.py", serves_properties=["C05", "C06", "C08", "C13", "C15"],
         kind_free_text="MIR -> SMT bounded model checking of lock-free protocols: the nightly compiler's MIR of the real protocol functions is regenerated on every run; "
                        "thread-local code is executed concretely into per-thread automata of visible steps (atomics with their orderings, fences, cell accesses, waker callbacks, storage release); "
                        "all interleavings of the endpoint programs up to the step bound, with vector-clock happens-before, are decided by z3 (bit-blast + SAT); counterexamples are schedules re-checked against the current source"),
    dict(name="kani", path="lib/kani_engine.py", serves_properties=["C01", "C02", "C07", "C08", "C11", "C16", "C18", "C20"],
         kind_free_text="Kani 0.68 / CBMC 6.11 / CaDiCaL bounded model checking of #[kani::proof] harnesses over the real crates "
                        "(path dependency or in-crate include hook); symbolic inputs and symbolic callback programs; "
                        "counterexamples replayed natively (dev, release, Miri) before a violation is reported"),
]

CLAIMED = {
    "C08": dict(
        engine="mirproto",
        technique="SMT-based bounded model checking (z3) of all interleavings of the real reset-event functions (from MIR) with an explicit all-permutations linearizability query; Kani/CBMC contract check of the awaiter list",
        design_ref="DESIGN.md §5 C08",
        text="For every scenario (auto-reset and manual-reset event, 2-3 threads, <= 5 logical operations from set / reset / try_wait / wait-poll / re-poll with a new waker / drop-wait) z3 decides over ALL interleavings of the visible steps of the real EventInner::{set, reset, try_wait, poll_wait, drop_wait} and Awaiter::{take_notification, is_registered, is_notified} (from MIR; mutex lock/unlock; waiter list replaced by its FIFO-with-generations contract): "
             "the history (invocation/response stamps and results) has a linearization w.r.t. the boolean-flag specification - refuted permutation by permutation -, no waiter is left registered while the signal is stored, HAS_WAITERS clear implies an empty waiter list, a notified waiter's latest waker was invoked, manual set releases every waiter registered before it, waker clones = drops. The contract of the waiter list is checked against the real awaiter_set crate with Kani (3 awaiters, FIFO order, generations, lifecycle bytes); the single-threaded LocalAutoResetEvent / LocalManualResetEvent are decided with Kani against the sequential specification (two wait futures, solver-chosen polls / sets / reset / cancellation, wake-ups and waker balance). "
             "One genuine defect (manual-reset: a set() straddling a reset() releases a waiter that started after the reset) is reproduced natively and reported as KNOWN-FINDING. Bounded, not a proof.",
        note="Sequentially consistent interleaving semantics for values (two kinds of atomic locations); happens-before tracked. Trusts rustc's MIR, extraction tables (fail closed), fingerprint-pinned hand models, z3, Kani/CBMC.",
    ),
    "C20": dict(
        engine="kani",
        technique="bounded model checking (Kani/CBMC SAT with float bit-blasting) of the real clamp, exact-tail, rank and Pettitt-location code against brute-force definitions",
        design_ref="DESIGN.md §4 C20",
        text="clamp_p_value decided for EVERY f64 (NaN / infinities -> 1.0, result always in [1e-15, 1]); exact_tail_p_values on 2 (3 thorough) arbitrary finite non-negative counts: every reported p in the reportable range; scaled_average_ranks on 3 ARBITRARY f64 equals the brute-force definition under the documented total order and depends only on the order of the data (monotone invariance); "
             "pettitt_rank_location on 2-4 doubled ranks equals integer brute force (location, prefix rank sum - also for flat series -, statistic); mann_whitney_tie_term on 3 ranks; median of 3 arbitrary / 2 finite f64; exact_mw_feasible for n1,n2 <= 40 (thorough); mirsym (MIR -> z3, every usize): the change-point selection scorer asks the exactness oracle about exactly the two sides of each split (size, n - size), i.e. the exact tail is used for the same splits as in MannWhitneyU. Partial claim: the rank layer and the reporting range only. Bounded, not a proof.",
        note="Transcendental / iterated float code (normal and Student-t tails, exact rank-sum DP) and larger samples are outside the claim. Trusts Kani/CBMC/CaDiCaL.",
    ),
    "C13": dict(
        engine="mirproto",
        technique="SMT-based bounded model checking (z3) of all interleavings of the real RegionCached write / regional-initialisation protocol (with_in_region, set_global, invalidate_regions, try_with_value, initialize, clear - interpreted from the compiler's MIR) with arc-swap cells as sequentially consistent single cells",
        design_ref="DESIGN.md §5 C13",
        text="Partial claim: RegionCached (not region_local), threads in fixed regions. For every scenario (1-2 regions, initially uninitialised or holding generation 0; 2-3 threads with <= 2 operations each from set_global and a read in a region) z3 decides over ALL interleavings of the visible steps of the real functions, up to the step bound: "
             "once every write and read has returned, every region is either invalid or holds the latest generation written (no persistently stale region, no region stuck in 'Initializing'); a thread that writes and then reads in its region observes its own write when nobody else writes; successive reads of one thread in one region never go back in the single writer's order; no panic arm. "
             "Found the genuine lost-invalidation defect (a write that lands between an initialiser's marker and its store), reproduced on the real crate through the public API and repaired (fix: 90c00c3, see known_findings.json). A second genuine defect - the writer's own read can return the previous value because a reader installs an outdated copy behind the writer's invalidation - is reproduced natively (native/region_cached_own_write) and reported as KNOWN-FINDING (history pattern: own-write miss with a stale install; every other violation is still reported). Bounded, not a proof.",
        note="arc-swap / rsevents / OnceLock are contracts (single SC cells, wait may return early); linked, many_cpus and the region lookup are outside; generations <= 5; runs longer than the step bound are outside. Trusts rustc's MIR, the extraction tables (fail closed), z3.",
    ),
    "C15": dict(
        engine="mirproto",
        technique="SMT-based bounded model checking (z3) of all interleavings of the real waker-metadata protocol of future_deque (FutureDequeCore::poll/drop, make_waker, check_activated, release_ref and the RawWaker vtable functions, interpreted from the compiler's MIR) against a scripted contained future, with vector-clock happens-before on the metadata release",
        design_ref="DESIGN.md §5 C15",
        text="Partial claim: the wake-up and metadata-lifetime clauses for ONE deque slot. For every scenario (scripted contained future that hands a clone of its waker to another thread; deque owner: push, <= 3 polls with task wakers 1/2 (distinct, equal, or sharing a data pointer with Waker::noop()), optional drop; waker thread: <= 4 operations from wake, wake_by_ref, clone, drop) z3 decides over ALL interleavings of the visible steps of the real functions: "
             "a wake that happens after the future's last poll leaves the slot activated AND invokes the task waker of the deque's latest poll (no lost wake-up, no stale parent); the contained future is polled only after insertion or a wake; the metadata reference count equals the live references at quiescence, the pool slot is released exactly once, exactly when the last reference (slot, slot waker, clones on any thread) goes, never accessed afterwards, and the release happens-after every access of the other thread under the orderings written in the source; parent waker clones are dropped exactly once; no panic arm. "
             "The deque-order clause (std VecDeque pop_front_if/pop_back_if) and multi-slot deques are outside the claim. Bounded, not a proof.",
        note="Std / plurality functions around the protocol (VecDeque iteration over one slot, Mutex<Waker>, Waker identity, pool box) are contracts; the contained future is a script. Values of the two atomics are read sequentially consistently; happens-before exact. Trusts rustc's MIR, the extraction tables (fail closed), z3.",
    ),
    "C05": dict(
        engine="mirproto",
        technique="SMT-based bounded model checking (z3) of all interleavings of the real protocol functions, extracted from the compiler's MIR, with vector-clock happens-before",
        design_ref="DESIGN.md §5 C05",
        text="For every scenario (sender: send | drop) x (receiver program of <= 2 operations from poll(w1), poll(w2), is_ready, into_value, drop; <= 3 in the thorough tier) z3 decides over ALL interleavings of the visible steps of the real functions (Event::{set, sender_dropped_without_set, poll, poll_bound, poll_set, poll_awaiting, poll_signaling, is_set, final_poll, destroy_*}) up to the longest path of the scenario: "
             "no panic/unreachable arm, payload and waker cells only used in the right state, every cell access happens-after the previous one (no data race under the orderings in the source), payload handed over xor destroyed exactly once, waker clones = drops, outcome consistent with the sender's operation, and a receiver left pending is woken once the sender completed. Bounded, not a proof.",
        note="Trusts rustc's MIR, the extraction tables (fail closed), the semantic table for the std plumbing of the endpoint wrappers (Option/Context/Result helpers), z3. One atomic location, so value reads are SC by coherence; happens-before exact.",
    ),
    "C06": dict(
        engine="mirproto",
        technique="SMT-based bounded model checking (z3) of all interleavings of the real protocol functions, extracted from the compiler's MIR, with vector-clock happens-before on the storage release",
        design_ref="DESIGN.md §5 C06",
        text="Same scenarios and model as C05; decided: exactly one release_event by the time both endpoints are gone (none while the receiver is alive), no access to event memory after the release, and the release happens-after every access the other endpoint made (vector clocks under the orderings actually written: a weakened ordering or a missing fence yields a schedule). Found the genuine missing-acquire defect in sender_dropped_without_set (fixed, see known_findings.json). Bounded, not a proof.",
        note="Storage release is abstract (call sites, not the boxed/embedded/pooled bodies); pool and lake rental traffic is outside. Trusts rustc's MIR, the extraction tables, z3.",
    ),
    "C09": dict(
        engine="mirsym",
        technique="SMT symbolic execution (z3 bit-vectors) of block ranges of the real ProcessorSetBuilder::take, taken from the compiler's MIR, with containers abstracted to their lengths: one inductive step of the selection loop from an arbitrary state",
        design_ref="DESIGN.md §4 C09",
        text="Only the cardinality clause of C09 ('take(n) returns a set of exactly n processors, or nothing') is decided, for all five region policies, over ALL usize values (no unrolling; lengths <= 2^32): "
             "policy Any - from the length test to the collected vector: None iff fewer than n candidates, otherwise exactly n; "
             "policy PreferSame - one iteration of `while processors.len() < count` from an ARBITRARY state with processors.len() <= count and a visited region of arbitrary size >= 1: no panic, and the loop either exits with processors.len() == count, returns None (regions exhausted), or re-enters its head with processors.len() <= count (an inductive step: covers any number of regions); "
             "policy RequireSame - the region filter closure keeps a region iff it has at least n candidates; policy PreferDifferent - one step of the outer loop head and one step of the inner for-loop from arbitrary states (exit only at len == count, break exactly at count, None only when candidates are exhausted); policy RequireDifferent - None iff fewer than n regions, else n elements; PreferSame's region sort key = min(region size, n); the resource-quota guard of take(n) (None iff a limit exists and n exceeds it) and one inductive step of the quota cut loop used by take_all (removes exactly one processor while len > limit, leaves with len <= limit, no panic; unchanged without a limit); take_all: on every path, for all five policies, the returned set is built from the quota-cut vector (path property over its loop-free MIR). Containers and rand sampling are replaced by their documented length contracts (evidence: assumptions). "
             "This check found a genuine defect (PreferSame took min(n, region) from every further region: regions of 2 and 2 candidates with n = 3 gave 4 processors), reproduced through the public API on fake hardware and repaired by /repo commit d0196c3 (known_findings.json, fixed). "
             "Membership, filters, exclusions, efficiency classes, distinctness, the region constraints themselves, which processors take_all selects per policy and the float quota conversion are outside the claim (foldhash maps, pdqsort, VecDeque, rejection sampling and Arc-carrying records do not fit: probe P12). Complete over the integer values, partial over the property.",
        note="Trusts rustc's MIR, the mirsym semantic table and the length contracts of Vec / VecDeque / HashMap / rand::sample stated in the evidence, z3. A thin slice of C09: cardinality bookkeeping only.",
    ),
    "C11": dict(
        engine="kani",
        technique="bounded model checking (Kani/CBMC SAT) of the real affinity-mask code; SMT symbolic execution (z3 bit-vectors over the compiler's MIR) of the range arithmetic of cpulist::emit for every u32",
        design_ref="DESIGN.md §4 C11",
        text="Two clauses of C11 are decided. (1) Affinity mask (Kani): BitPosition::{of,bit,processor_id} round-trips for EVERY u32 processor id (word index, single bit, id reconstructed); a 1-word and a 2-word CpuMask with a solver-chosen id inserted into each: membership observed at an arbitrary id equals the inserted set, equality holds iff the sets are equal whatever the widths (also with an arbitrary second word), width never changes; enumeration of a one-word mask with a solver-chosen word (<= 2 bits) yields ascending ids, one per bit; insert as an inductive step from an ARBITRARY prior content of a 1-word and a 2-word mask adds exactly one bit and keeps every member and the width. "
             "(2) Id-list codec, emit side (mirsym, MIR -> z3, no bound on the values): the grouping step of cpulist::emit (the fold_while closure) from an ARBITRARY accumulator satisfying the run invariant and an arbitrary next id does not panic and returns exactly the specified accumulator; the emission of one group (the loop body inside emit) does not panic for EVERY (start, len) with start+len-1 <= u32::MAX - including runs that end at u32::MAX - and the formatted tokens (n | a,b | a-b) denote exactly the ids start..=start+len-1 for an arbitrary probe id; the outer loop body records the fold's (start, len) unchanged and removes exactly len ids (one inductive step of the removal loop). "
             "Parse side (mirsym check cpulist_parse_range, whole MIR of cpulist::parse_range with the std string calls opaque - an arbitrary result per distinct text): never panics (step_by is never reached with a zero stride), returns Err exactly when a number fails to parse, the stride is 0 or start > end, and otherwise Ok(collect(start..=end step stride)) of the numbers parsed from the right pieces of the text (stride 1 without a ':' part); every well-formed range is accepted. The emit check found a genuine defect (emit panicked for every run of >= 3 ids ending at u32::MAX), reproduced natively and repaired by /repo commit 17418ce (known_findings.json, fixed). "
             "The Linux inventory parsing, the std string / iterator functions under cpulist::parse (str::parse, split, sorted, dedup) and the container / hashing / formatting code around emit's arithmetic are outside the claim (they do not fit a solver-based encoding here). Bounded (mask widths) resp. complete over u32 (arithmetic), not a proof of the whole clause.",
        note="Trusts Kani/CBMC/CaDiCaL, smallvec (resize modelled), rustc's MIR, the mirsym semantic table for core integer/Option methods, z3. Partial claim: the mask and emit's range arithmetic only.",
    ),
    "C16": dict(
        engine="kani",
        technique="bounded model checking (Kani/CBMC SAT) of the real observation-bag, publication and merge code from arbitrary prior states",
        design_ref="DESIGN.md §4 C16",
        text="ObservationBag/ObservationBagSync::insert decided for EVERY i64 magnitude and batch size from an ARBITRARY prior bag state: count/sum advance exactly (wrapping as documented), the observation lands in the first bucket with bound >= m or in none, observed at an arbitrary bucket of a 66-bucket bag (dirty bit min(index,63), buckets 62..65) and of bags with 3/1/0 SYMBOLIC bounds; "
             "copy_from and MetricsPusher::push (incl. the skip heuristic) from an arbitrary state satisfying the publication invariant: published = local afterwards; merge_from / snapshot merge: element-wise sums. One inductive step per function; single thread. Bounded, not a proof.",
        note="Trusts Kani/CBMC/CaDiCaL; registries, thread teardown and Report::collect (thread-locals, hash maps) and concurrency are outside the claim.",
    ),
    "C18": dict(
        engine="kani",
        technique="bounded model checking (Kani/CBMC SAT) of the real tracking allocator and span code over a recording inner allocator",
        design_ref="DESIGN.md §4 C18",
        text="Allocator::{alloc,alloc_zeroed,realloc,dealloc}: for a call of solver-chosen kind with ANY size < 2^40, alignment 2^0..2^7, pointer and new size, exactly one call is forwarded with identical arguments and the wrapped allocator's result is returned unchanged; thread counters and process totals advance by exactly (requested size | new size | nothing, 1 | 0). "
             "ThreadSpan/ProcessSpan: nested spans over solver-chosen calls report exactly the calls inside them; consecutive spans and OperationMetrics::merge add up. Single thread. Bounded, not a proof.",
        note="Trusts Kani/CBMC/CaDiCaL; multi-thread totals, Session/Report and rendering are outside the claim.",
    ),
    "C01": dict(
        engine="kani",
        technique="bounded model checking (Kani/CBMC SAT) of the real layout, vacancy-index, slab and raw-pool code: arbitrary-state inductive steps and scenario shapes with solver-chosen operations",
        design_ref="DESIGN.md §4 C01",
        text="Layout arithmetic decided for EVERY object size 1..2 MiB x alignment 1..4096 (offset, stride, disjoint slots, no overflow); "
             "vacancy map/tracker: each operation decided from an ARBITRARY invariant state of up to 192 slabs (inductive step, crosses the 64-slab block boundary); "
             "real Slab at capacity 2 (3 thorough): fill, solver-chosen removals and re-inserts - address formula, alignment, disjointness, stable addresses, read-back; "
             "raw pool glue (insert/remove/shrink_to_fit/reserve): one operation from an ARBITRARY consistent pool summary of 0..3 slabs with slab contracts - lowest-vacancy placement, slabs never move, only empty trailing slabs dropped. Bounded, not a proof.",
        note="Trusts Kani/CBMC/CaDiCaL, std Vec (resize/reserve modelled), release-profile semantics; wrapper pools, casts and panicking callbacks are outside the claim.",
    ),
    "C02": dict(
        engine="kani",
        technique="bounded model checking (Kani/CBMC SAT) of the real slab / raw-pool code with counting payloads and a ghost live-set",
        design_ref="DESIGN.md §4 C02",
        text="Real Slab at capacity 2 (3 thorough) with counting payloads: destructor runs exactly once on remove and on slab drop, never for remove_unpin, never while live; "
             "count/len/is_empty/is_full and forward+backward iteration equal the live set after solver-chosen removals/re-inserts; free-list representation invariant checked after every step; "
             "drop policy: MustNotDropContents panics iff non-empty; pool-level len/capacity accounting via the glue inductive step (len = sum of slab counts, capacity = slabs*capacity, reserve(n) leaves room for n, shrink keeps every non-empty slab). Bounded, not a proof.",
        note="Trusts Kani/CBMC/CaDiCaL, std Vec/Arc/Rc; managed/local handle reference counting (wrapper pools) is outside the claim.",
    ),
    "C07": dict(
        engine="kani",
        technique="bounded model checking (Kani/CBMC SAT) of the real LocalEvent code with solver-chosen re-entrant waker callbacks",
        design_ref="DESIGN.md §4 C07",
        text="For each scenario shape (<=5 top-level endpoint operations, each waker callback performing one of 6 solver-chosen "
             "endpoint operations, nesting depth 1 (2 in the thorough tier)) CBMC decides for ALL choices that outcome, "
             "exactly-once payload hand-off, wake-after-pending, waker clone/drop balance, and memory safety of the event storage "
             "(no double free, no access after release) hold, over boxed and embedded storage (pooled storage: two harnesses are kept in the sources for reference but are not registered - CBMC ran out of memory / gave no verdict within 100 min). Bounded, not a proof.",
        note="Trusts Kani's MIR->goto translation, CBMC, CaDiCaL; release-profile semantics (debug-only code outside the claim); "
             "no panicking callbacks (Kani has no unwinding).",
    ),
}

PENDING = "check under construction in this build phase (see DESIGN.md); not claimed until its check is committed"
NOT_APPLICABLE = {

    "C19": "the only encodable slice is key validation (keys.rs), and it does not fit: validate_key parses every segment with std::path::Path::components; CBMC gave no verdict in 20 min for every 4-byte key over {a . /}, nor for 9 two-byte segments chosen from {aa, ..} (harness kept in kani/cbh_storage for reference); crash-point atomicity, byte-identical round trips and concurrent readers/writers go through tokio::fs, flate2 and the OS file system, which cannot be encoded",
    "C03": "wrapper pools (Arc<Mutex<..>>, Rc<RefCell<..>> + type-erased removers) exhaust 20-28 GB in CBMC even for {insert; drop handle} at capacity 2 (DESIGN.md P22); the Send/Sync clause is a trait-solver question, not an SMT query over the code",
    "C04": "the panic half needs unwinding (absent in Kani; catch_unwind even ICEs it) and the re-entrancy half needs the wrapper-pool shapes that do not fit (P22)",
    "C10": "OS scheduler affinity via sched_setaffinity/sched_getaffinity FFI and per-thread pin state in a thread_local with a destructor (P4): neither is encodable; the encodable mask construction is decided under C11",
    "C12": "Kani: every entry point goes through thread_local registries with destructors and thread::current() (unsupported pthread_key_create, P4). The MIR protocol engine (mirproto) that now decides C13/C15 does not reach it either within this round: the state the property is about is heap-shaped (per-thread HashMaps keyed by family, Arc strong counts compared with 2, an RwLock-guarded global registry, thread-local destructors at thread exit), not a fixed set of atomic cells, and the engine has no tables for maps, reference counts read as values, or thread teardown; first-access races and 'dropped wherever the last reference is dropped' need those",
    "C14": "OS threads, blocking event-listener waits, platform FFI (pinning), liveness ('never hangs', 'no wake-up lost') over unbounded task queues; Kani ICEs on thread::spawn (P3); the MIR protocol engine has no model of crossbeam/Mutex-protected queues of boxed tasks, event-listener, oneshot channels or thread join, and a bounded safety encoding cannot express the termination clauses",
    "C17": "real OS thread pool, mpsc/oneshot channels, a start barrier, a lifetime transmuted to 'static and panics crossing threads (unwinding): no unwinding and no threads in Kani; the MIR protocol engine has no tables for channels / barriers / unwinding, and the use-after-return clause is about a borrow that outlives a panicking caller, which needs unwinding semantics",
}

NOTES = ("Technique family: solver-based checking of the real code (Kani/CBMC over compiled code; MIR->SMT for the lock-free protocols and for loop-free integer kernels). "
         "Repairs of genuine defects in /repo: fix: commits 75fe83e (C06), 17418ce (C11), d0196c3 (C09), 90c00c3 (C13), recorded in known_findings.json; two recorded known findings (C08 manual-reset event; C13 own write not observed behind a stale regional install). "
         "Exit codes of ./check: 0 = property held on everything explored, 1 = VIOLATION (replayed against the real build), "
         "2 = no verdict (timeout, out of memory, unsupported construct, non-reproducing counterexample) - never reported as a pass.")
