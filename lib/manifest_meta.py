"""Hand-maintained manifest metadata (see gen_manifest.py)."""

HOOKS = dict(
    guard="cfg(kani) / cfg(folo_verif)",
    enable="Kani sets cfg(kani) itself (cargo kani); native replays build with RUSTFLAGS='--cfg folo_verif' and FOLO_VERIF_DIR=/verif",
    baseline_off_cmd="cd /repo && cargo nextest run --workspace --no-fail-fast --tool-config-file pb:/w/lib/nextest.toml --profile pb --test-threads 8 --offline || cargo test --workspace --no-fail-fast --offline",
    source_commits=[],
    add_only=True,
)

ENGINES = [
    dict(name="kani", path="lib/kani_engine.py", serves_properties=["C07"],
         kind_free_text="Kani 0.68 / CBMC 6.11 / CaDiCaL bounded model checking of #[kani::proof] harnesses over the real crates "
                        "(path dependency or in-crate include hook); symbolic inputs and symbolic callback programs; "
                        "counterexamples replayed natively (dev, release, Miri) before a violation is reported"),
]

CLAIMED = {
    "C07": dict(
        engine="kani",
        technique="bounded model checking (Kani/CBMC SAT) of the real LocalEvent code with solver-chosen re-entrant waker callbacks",
        design_ref="DESIGN.md §4 C07",
        text="For each scenario shape (<=5 top-level endpoint operations, each waker callback performing one of 6 solver-chosen "
             "endpoint operations, nesting depth 1 (2 in the thorough tier)) CBMC decides for ALL choices that outcome, "
             "exactly-once payload hand-off, wake-after-pending, waker clone/drop balance, and memory safety of the event storage "
             "(no double free, no access after release) hold, over boxed, embedded and pooled storage. Bounded, not a proof.",
        note="Trusts Kani's MIR->goto translation, CBMC, CaDiCaL; release-profile semantics (debug-only code outside the claim); "
             "no panicking callbacks (Kani has no unwinding).",
    ),
}

PENDING = "check under construction in this build phase (see DESIGN.md); not claimed until its check is committed"
NOT_APPLICABLE = {
    "C01": PENDING, "C02": PENDING, "C05": PENDING, "C06": PENDING, "C08": PENDING, "C11": PENDING,
    "C16": PENDING, "C18": PENDING, "C19": PENDING, "C20": PENDING,
    "C03": "wrapper pools (Arc<Mutex<..>>, Rc<RefCell<..>> + type-erased removers) exhaust 20-28 GB in CBMC even for {insert; drop handle} at capacity 2 (DESIGN.md P22); the Send/Sync clause is a trait-solver question, not an SMT query over the code",
    "C04": "the panic half needs unwinding (absent in Kani; catch_unwind even ICEs it) and the re-entrancy half needs the wrapper-pool shapes that do not fit (P22)",
    "C09": "take/take_all run through foldhash maps, pdqsort, VecDeque, rejection-sampling RNG loops and Arc-carrying processor records; a 4-processor/2-region query used 30 GB for 20 min without a verdict (P12)",
    "C10": "OS scheduler affinity via sched_setaffinity/sched_getaffinity FFI and per-thread pin state in a thread_local with a destructor (P4): neither is encodable; the encodable mask construction is decided under C11",
    "C12": "every entry point goes through thread_local registries with destructors and thread::current() (unsupported pthread_key_create, P4); first-access races need OS threads",
    "C13": "region_cached/region_local sit on linked (P4), arc-swap thread-local debt lists, rsevents blocking waits and many_cpus; the protocol publishes heap values through ArcSwap, which the mirproto model cannot represent",
    "C14": "OS threads, blocking event-listener waits, platform FFI, liveness; Kani ICEs on thread::spawn (P3)",
    "C15": "every push_* allocates waker metadata from a thread_local pool with a destructor (P4); the cross-thread wake race needs threads",
    "C17": "real OS thread pool, mpsc/oneshot channels and panics crossing threads; no unwinding and no threads in Kani",
}

NOTES = ("Technique family: solver-based checking of the real code (Kani/CBMC over compiled code; MIR->SMT for the lock-free protocols). "
         "Exit codes of ./check: 0 = property held on everything explored, 1 = VIOLATION (replayed against the real build), "
         "2 = no verdict (timeout, out of memory, unsupported construct, non-reproducing counterexample) - never reported as a pass.")
