"""Property driver: selects the harnesses / scenarios of one property, runs the engines, gates
violations through native replay, matches known findings, writes evidence."""
import argparse
import json
import os
import random
import sys
import time

sys.path.insert(0, os.path.dirname(os.path.abspath(__file__)))
import kani_engine as K  # noqa: E402

VERIF = K.VERIF
EVID = os.path.join(VERIF, "evidence")
KNOWN = os.path.join(VERIF, "known_findings.json")


def load_known():
    try:
        with open(KNOWN) as f:
            return json.load(f)
    except FileNotFoundError:
        return {"known": [], "fixed": []}


def match_known(known, prop, component, label):
    """Known findings are keyed by role: property + component (harness/scenario) + failing label substring."""
    for k in known.get("known", []):
        if k["property"] == prop and k["component"] in ("*", component) and k["label"] in label:
            return k
    return None


def properties():
    out = {}
    with open(os.path.join(VERIF, "properties.jsonl")) as f:
        for line in f:
            if line.strip():
                p = json.loads(line)
                out[p["id"]] = p
    return out


def git_rev(path):
    import subprocess
    try:
        rev = subprocess.run(["git", "-C", path, "rev-parse", "--short", "HEAD"], capture_output=True, text=True).stdout.strip()
        dirty = subprocess.run(["git", "-C", path, "status", "--porcelain", "--untracked-files=no"], capture_output=True, text=True).stdout.strip()
        return rev + ("+dirty" if dirty else "")
    except Exception:  # noqa: BLE001
        return "unknown"


def main(argv=None):
    import props  # property table (lib/props.py)
    ap = argparse.ArgumentParser()
    ap.add_argument("prop")
    ap.add_argument("--tier", default=os.environ.get("VERIF_TIER", "quick"), choices=["quick", "thorough"])
    ap.add_argument("--replay", default=None)
    ap.add_argument("--only", default=None, help="substring filter on harness / scenario names (development)")
    ap.add_argument("--jobs", type=int, default=int(os.environ.get("VERIF_JOBS", "10")))
    ap.add_argument("--no-evidence", action="store_true")
    args = ap.parse_args(argv)
    prop = args.prop
    seed = int(os.environ.get("VERIF_SEED", "0") or 0)
    t0 = time.time()
    if prop not in props.PROPS:
        print("property %s is not claimed (see MANIFEST.json not_applicable)" % prop)
        return 2
    spec = props.PROPS[prop]
    if args.replay:
        return replay_only(prop, spec, args.replay)

    known = load_known()
    violations = []      # (component, label, replay_path)
    known_hits = []
    noverdict = []
    samples = []
    totals = dict(states=0, transitions=0, queries=0, solver_s=0.0, obligations=0, harnesses=0, traces_validated=0,
                  covers=0)
    assumptions = list(spec.get("assumptions", []))
    functions = []
    bounds = []

    # ---------------- kani part ----------------
    hs = []
    for suite in spec.get("kani_suites", []):
        for h in K.discover(suite):
            if prop not in h["ids"]:
                continue
            if h["tier"] not in ("quick", "thorough"):
                continue                      # "reference" harnesses are kept in the sources but not registered
            if args.tier == "quick" and h["tier"] != "quick":
                continue
            if args.only and args.only not in h["name"]:
                continue
            hs.append(h)
        functions += K.SUITES[suite].get("functions", [])
        assumptions += ["kani stub: " + s for s in K.SUITES[suite].get("stubs", [])]
    random.Random(seed).shuffle(hs)

    def progress(r):
        print("[kani] %-55s %-20s %6.1fs  %s" % (r["harness"]["name"], r["status"], r["wall_s"], r["detail"][:140]), flush=True)

    results = K.run_harnesses(hs, jobs=args.jobs, progress=progress) if hs else []
    twin_for_validation = None
    for r in results:
        h, p = r["harness"], r["parsed"]
        totals["harnesses"] += 1
        totals["states"] += p["variables"]
        totals["transitions"] += p["clauses"]
        totals["queries"] += p["solver_calls"]
        totals["solver_s"] += p["solver_s"]
        totals["obligations"] += p["checks_total"]
        totals["covers"] += p["covers_sat"]
        samples.append(dict(engine="kani", harness=h["name"], bounds=h["bounds"], expect=h["expect"], result=r["status"],
                            detail=r["detail"][:200], checks=p["checks_total"], cover_witnesses="%d/%d" % (p["covers_sat"], p["covers_total"]),
                            sat_variables=p["variables"], sat_clauses=p["clauses"], solver_calls=p["solver_calls"],
                            solver_s=round(p["solver_s"], 2), wall_s=r["wall_s"]))
        bounds.append("%s: %s" % (h["name"], h["bounds"]))
        if r["status"] == "noverdict":
            noverdict.append((h["name"], r["detail"]))
        elif r["status"] == "violation_candidate":
            handle_candidate(prop, r, known, violations, known_hits, noverdict, totals)
        elif h["expect"] == "fail" and twin_for_validation is None:
            twin_for_validation = r
    # Trace validation against the implementation: the vacuity twin's counterexample (a complete
    # run of the scenario chosen by the solver) is replayed natively and must reach the same final
    # assertion in the real build.
    if twin_for_validation is not None and not args.only:
        h = twin_for_validation["harness"]
        tests, _ = K.concrete_playback(h, slot=0, include_covers=True)
        # the twin's own failing assertion, else any witness trace (every complete run ends in it)
        tests = [t for t in tests if "vacuity twin" in (t[1] or "")] + [t for t in tests if t[0] == "cover"]
        if not tests:
            noverdict.append((h["name"], "twin trace validation: concrete playback produced no values"))
        else:
            vecs = tests[0][2]
            rp = os.path.join(K.CACHE, "replay", "%s.%s.twin.replay" % (prop, h["name"]))
            res = K.native_replay(h, vecs, rp, modes=("dev", "release"))
            okm = [m for m, (rep, d) in res.items() if rep and "vacuity twin" in d]
            print("[kani] twin trace validation %s: %s" % (h["name"], {m: ("reproduced" if rep else d[:80]) for m, (rep, d) in res.items()}), flush=True)
            if len(okm) == len(res):
                totals["traces_validated"] += len(okm)
            else:
                noverdict.append((h["name"], "twin trace did not reproduce natively: %s" % res))

    # ---------------- mirproto part ----------------
    if spec.get("mirproto"):
        import mirproto_engine as M
        mres = M.run_property(prop, spec["mirproto"], args.tier, seed, only=args.only, jobs=args.jobs)
        for s in mres["samples"]:
            samples.append(s)
        for k in ("states", "transitions", "queries", "solver_s", "obligations", "traces_validated"):
            totals[k] += mres["totals"].get(k, 0)
        functions += mres["functions"]
        bounds += mres["bounds"]
        assumptions += mres["assumptions"]
        noverdict += mres["noverdict"]
        native_note = None
        for (component, label, replay_path) in mres["violations"]:
            if prop == "C13" and "persistent staleness" in label:
                # the canonical schedule of this class (an invalidation that lands while a reader's Clone is
                # in progress inside initialize) can be driven through the public API of the real crate
                if native_note is None:
                    native_note = native_region_cached_stale()
                    if native_note.startswith("reproduced"):
                        totals["traces_validated"] += 1
                label = "%s (%s)" % (label, native_note)
            k = match_known(known, prop, component, label)
            if k:
                known_hits.append((k, component, label))
            else:
                violations.append((component, label, replay_path))

    # ---------------- mirsym part (loop-free integer MIR fragments -> z3) ----------------
    for mod in spec.get("mirsym", []):
        if args.only and args.only not in mod:
            continue
        d = run_mirsym(mod)
        if d is None:
            noverdict.append((mod, "mirsym worker failed"))
            continue
        for q in d.get("queries", []):
            totals["queries"] += 1
            totals["obligations"] += 1
            totals["solver_s"] += q.get("s", 0)
        totals["states"] += d.get("symbolic_states", 0)
        totals["transitions"] += d.get("asserted_formulas", 0)
        samples.append(dict(engine="mirsym", check=mod, queries=d.get("queries"), vacuity_witnesses=d.get("witness"), wall_s=d.get("wall_s"),
                            symbolic_states=d.get("symbolic_states"), asserted_formulas=d.get("asserted_formulas")))
        functions += d.get("functions", [])
        bounds.append("%s: all values of the u32 inputs (no unrolling: the fragments are loop-free); outside: %s" % (mod, "; ".join(d.get("outside", []))))
        assumptions += d.get("assumptions", [])
        for w in d.get("noverdict", []):
            noverdict.append((mod, w))
        print("[mirsym] %-40s %d queries, %d candidate violation(s), %.1fs" % (mod, len(d.get("queries", [])), len(d.get("violations", [])), d.get("wall_s", 0)), flush=True)
        for i, v in enumerate(d.get("violations", [])):
            component = "%s:%s" % (mod, (v.get("line") or ["?", 0])[0])
            label = "%s %s" % (v["label"], json.dumps(v["assignment"], sort_keys=True))
            rp = os.path.join(VERIF, "replay", prop, "%s_%d.mirsym.json" % (mod, i))
            os.makedirs(os.path.dirname(rp), exist_ok=True)
            with open(rp, "w") as f:
                f.write("# mirsym %s\n" % mod)
                json.dump(v, f, indent=1)
            if v.get("reproduced"):
                totals["traces_validated"] += 1
                k = match_known(known, prop, component, label)
                if k:
                    known_hits.append((k, component, label))
                else:
                    violations.append((component, label + " (reproduced natively: %s)" % ",".join("%s rc=%s" % (m, x.get("rc")) for m, x in v["replay"].items() if isinstance(x, dict)), rp))
            else:
                noverdict.append((component, "solver assignment did not reproduce natively (or is too large to replay): %s ; replay=%s" % (label, rp)))

    wall = time.time() - t0
    for (k, component, label) in known_hits:
        print("KNOWN-FINDING: property=%s %s [%s: %s]" % (prop, k["what"], component, label[:120]))
    for (component, label, rp) in violations:
        print("VIOLATION property=%s replay=%s" % (prop, rp))
        print("  component=%s: %s" % (component, label[:300]))
    for (name, why) in noverdict:
        print("NO-VERDICT %s: %s" % (name, why[:300]))

    if not args.no_evidence and not args.only:
        ev = dict(
            property_id=prop, tier=args.tier, seed=seed, level="model_checking",
            coverage=dict(
                states=max(totals["states"], 0), transitions=max(totals["transitions"], 0),
                traces_validated_against_impl=totals["traces_validated"],
                samples=samples,
                rule="states = SAT/SMT variables (kani, mirproto) resp. symbolic block states explored (mirsym) and transitions = clauses/assertions of the formulas the solver decided "
                     "(each formula encodes every execution of one harness or scenario within its bound); "
                     "each sample is one harness/scenario with its bound and verdict",
                obligations=totals["obligations"], discharged=totals["obligations"] if not (violations or noverdict) else 0,
                queries_discharged=totals["queries"], solver_time_s=round(totals["solver_s"], 2),
                harnesses=totals["harnesses"], cover_witnesses_satisfied=totals["covers"],
                functions_encoded=sorted(set(functions)), bounds=bounds,
                outside_the_claim=spec.get("outside", []),
                repo_rev=git_rev(K.REPO), verif_rev=git_rev(VERIF),
                no_verdict=[list(x) for x in noverdict],
                known_findings_reported=[k["what"] for (k, _, _) in known_hits],
                exhaustive=False,
            ),
            assumptions=assumptions, wall_s=round(wall, 2), violations=len(violations),
        )
        os.makedirs(EVID, exist_ok=True)
        with open(os.path.join(EVID, prop + ".json"), "w") as f:
            json.dump(ev, f, indent=1)
    if violations:
        return 1
    if noverdict:
        return 2
    print("OK property=%s tier=%s harnesses=%d queries=%d wall=%.0fs" % (prop, args.tier, totals["harnesses"], totals["queries"], wall))
    return 0


def native_region_cached_stale():
    """Runs native/region_cached_stale against the repository under test (dev profile). Information only:
    a model schedule of another shape does not have to be reachable by this one driver."""
    import shutil
    import subprocess
    repo = os.environ.get("FOLO_REPO", "/repo")
    src = os.path.join(VERIF, "native", "region_cached_stale")
    cache = os.environ.get("FOLO_VERIF_CACHE") or os.path.join(VERIF, ".cache")
    work = os.path.join(cache, "native_src", "region_cached_stale")
    try:
        shutil.rmtree(work, ignore_errors=True)
        shutil.copytree(src, work, ignore=shutil.ignore_patterns("target", "Cargo.lock"))
        ct = os.path.join(work, "Cargo.toml")
        txt = open(ct).read().replace('"/repo/packages/', '"%s/packages/' % repo)
        open(ct, "w").write(txt)
        shutil.copyfile(os.path.join(repo, "Cargo.lock"), os.path.join(work, "Cargo.lock"))
        env = dict(os.environ, CARGO_NET_OFFLINE="true")
        env.pop("RUSTFLAGS", None)
        p = subprocess.run(["cargo", "run", "-q", "--offline", "--target-dir", os.path.join(cache, "native", "region_cached_stale")],
                           cwd=work, env=env, capture_output=True, text=True, timeout=900)
    except Exception as e:  # noqa: BLE001
        return "native replay not run: %s" % str(e)[:120]
    line = (p.stdout.strip().splitlines() or [""])[0]
    if p.returncode == 1:
        return "reproduced natively through the public API: %s" % line
    if p.returncode == 0:
        return "the Clone-parking native replay does not reproduce this schedule: %s" % line
    return "native replay inconclusive (rc=%s)" % p.returncode


def run_mirsym(mod, extra=()):
    import subprocess
    env = dict(os.environ)
    env["PYTHONPATH"] = os.path.join(VERIF, "lib")
    try:
        p = subprocess.run(["python3-vt", "-m", "mirsym." + mod] + list(extra), cwd=os.path.join(VERIF, "lib"), env=env, capture_output=True, text=True, timeout=3600)
    except subprocess.TimeoutExpired:
        return None
    last = [l for l in p.stdout.splitlines() if l.startswith("{")]
    if p.returncode != 0 or not last:
        print((p.stderr or p.stdout)[-1500:])
        return None
    return json.loads(last[-1])


def handle_candidate(prop, r, known, violations, known_hits, noverdict, totals):
    """Replay gate: a Kani counterexample becomes a VIOLATION only if the real build reproduces it."""
    h = r["harness"]
    label = r["detail"]
    k = match_known(known, prop, h["name"], label)
    tests, plog = K.concrete_playback(h, slot=r.get("slot", 0))
    rp = os.path.join(VERIF, "replay", prop, h["name"] + ".replay")
    if not tests:
        noverdict.append((h["name"], "counterexample without concrete values (%s); kani said: %s" % (plog, label)))
        return
    reproduced, res = [], {}
    for (kind, desc, vecs) in tests[:4]:      # one playback test per failed check; first that reproduces wins
        res = K.native_replay(h, vecs, rp)
        print("[kani] replay %s [%s: %s]: %s" % (h["name"], kind, (desc or "")[:60], {m: (rep, d[:160]) for m, (rep, d) in res.items()}), flush=True)
        reproduced = [m for m, (rep, d) in res.items() if rep]
        if reproduced:
            break
    if reproduced:
        totals["traces_validated"] += len(reproduced)
        with open(rp, "a") as f:
            f.write("# kani: %s\n# reproduced natively in: %s\n" % (label.replace("\n", " "), ",".join(reproduced)))
            for m in reproduced:
                f.write("# %s: %s\n" % (m, res[m][1].replace("\n", " | ")[-600:]))
        if k:
            known_hits.append((k, h["name"], label))
        else:
            violations.append((h["name"], label + " (reproduced: %s)" % ",".join(reproduced), rp))
    else:
        noverdict.append((h["name"], "kani counterexample did NOT reproduce natively (encoding/stub suspect): %s ; replay=%s" % (label, rp)))


def replay_only(prop, spec, path):
    """`check <ID> --replay <file>`: re-run a recorded counterexample against the current tree."""
    meta = {}
    vecs = []
    with open(path) as f:
        first = f.readline()
        if first.startswith("# mirproto"):
            import mirproto_engine as M
            return M.replay_file(prop, spec.get("mirproto"), path)
        if first.startswith("# mirsym"):
            mod = first.split()[2]
            v = json.loads(f.read())
            d = run_mirsym(mod, ["--replay", json.dumps(v["assignment"])])
            print(json.dumps(d))
            if d and d.get("reproduced"):
                print("VIOLATION property=%s replay=%s" % (prop, path))
                return 1
            return 0 if d else 2
        for tok in first[1:].split():
            if "=" in tok:
                a, b = tok.split("=", 1)
                meta[a] = b
        for line in f:
            if line.strip() and not line.startswith("#"):
                vecs.append([int(x) for x in line.strip().split(",") if x])
    hs = [h for h in K.discover(meta["suite"]) if h["name"] == meta["harness"]]
    if not hs:
        print("unknown harness in replay file")
        return 2
    tmp = os.path.join(K.CACHE, "replay", "manual.replay")
    res = K.native_replay(hs[0], vecs, tmp)
    for m, (rep, d) in res.items():
        print("%s: %s: %s" % (m, "REPRODUCED" if rep else ("infeasible" if rep is None else "not reproduced"), d[-500:]))
    if any(rep for rep, _ in res.values()):
        print("VIOLATION property=%s replay=%s" % (prop, path))
        return 1
    return 0


if __name__ == "__main__":
    sys.exit(main())
