"""C09, cardinality of `ProcessorSetBuilder::take(n)`: the counting logic of the selection policies.

`take` as a whole is out of Kani's reach (foldhash maps, pdqsort, VecDeque, rand sampling, Arc-carrying
processor records: probe P12, 30 GB / 20 min without a verdict). What "returns a set of exactly n
processors, or nothing" rests on is integer bookkeeping around those containers, which is taken from
the MIR of `take` (block ranges found structurally on every run) and decided for every usize value.
Containers are abstracted to their lengths (a symbolic usize per container), and the std / rand calls
by their documented length contracts:

  Vec::len                      the container's length
  slice.sample(rng, amount)     yields min(amount, slice.len()) distinct elements of the slice
  Vec::extend(iter)             length grows by the number of yielded elements
  collect_vec(iter)             a Vec of the yielded elements
  VecDeque::pop_front           Some(front) or None (arbitrary)
  HashMap::get(key from keys()) Some (the code `expect`s it)

  S1  policy Any: from the length test to the join: `None` iff fewer than n candidates, else exactly n.
  S2  policy PreferSame, one inductive step of `while processors.len() < count`: from an arbitrary
      state with processors.len() <= count, one visited region of arbitrary size >= 1: the loop either
      exits with processors.len() == count, or returns None (regions exhausted), or re-enters the head
      with processors.len() <= count again. One step from an arbitrary state covers any number of
      regions.
  S3  policy RequireSame, the filter closure: a region qualifies iff it has at least n candidates.
  S4  policy PreferDifferent: one step of the outer loop head (exit only with len == count, inner loop
      only entered with len < count, None only when no candidates remain) and one step of the inner
      `for` loop from an arbitrary state with len < count (one processor moved; break exactly at
      count; back to the outer head with len <= count).
  S5  policy RequireDifferent: None iff fewer than n regions, else one element per each of n regions.
  S7  take(n): the resource-quota guard at the entry returns None iff a limit exists and n exceeds it.
  S8  reduce_processors_until_under_quota (the cut take_all applies): without a limit the vector is
      returned unchanged; with a limit, one inductive step of the pop loop from an arbitrary length
      (removes exactly one while len > limit, leaves with len <= limit, no panic).
  S9  take_all: on every path, for all five policies, the returned set is built from the result of the
      quota cut applied to the arm's vector (path property over the whole loop-free MIR of take_all).
  S6  policy PreferSame, the region sort key closure returns min(candidates in the region, n) (regions
      that can satisfy the request alone are visited first: "as few regions as possible").

A satisfying assignment is turned into fake hardware (region sizes) and replayed through the public
API of the real crate (native/selection_replay, `many_cpus` with its `test-util` feature) before it is
reported."""
import json
import os
import re
import shutil
import subprocess
import sys
import time

import z3

sys.path.insert(0, os.path.dirname(os.path.dirname(os.path.abspath(__file__))))
from mirproto import mir as M          # noqa: E402
from mirsym import sym as S            # noqa: E402

TAKE_RE = r"^processor_set_builder::<impl at [^>]*processor_set_builder\.rs:\d+:\d+: \d+:\d+>::take$"
W = 64


def bv(name):
    return z3.BitVec(name, W)


ASSERTED = [0]


def check(conds, timeout_s=120):
    ASSERTED[0] += len(conds)
    s = z3.Solver()
    s.set("timeout", timeout_s * 1000)
    s.add(*conds)
    t0 = time.time()
    r = s.check()
    return r, (s.model() if r == z3.sat else None), round(time.time() - t0, 3)


# ----- container-length abstraction ------------------------------------------------------------
def tok_of(v):
    if isinstance(v, tuple) and v and v[0] in ("VEC", "SLICE"):
        return v[1]
    raise S.Unsupported("not a tracked container: %r" % (v,))


def length(path, v):
    key = "@len:" + tok_of(v)
    if key not in path.env:
        raise S.Unsupported("length of untracked container %r" % (v,))
    return path.env[key]


def h_len(ex, path, vals, args):
    return length(path, args[0])


def h_sample(ex, path, vals, args):
    amount = args[2]
    if not S.is_bv(amount):
        raise S.Unsupported("sample amount %r" % (amount,))
    n = length(path, args[0])
    return ("ITER", z3.If(z3.ULE(amount, n), amount, n))


def h_extend(ex, path, vals, args):
    it = args[1]
    if not (isinstance(it, tuple) and it[0] == "ITER"):
        raise S.Unsupported("extend with %r" % (it,))
    key = "@len:" + tok_of(args[0])
    path.env[key] = path.env[key] + it[1]
    return ("TUPLE", [])


def h_collect(ex, path, vals, args):
    it = args[0]
    if not (isinstance(it, tuple) and it[0] == "ITER"):
        raise S.Unsupported("collect_vec of %r" % (it,))
    ex.fresh += 1
    name = "collected%d" % ex.fresh
    path.env["@len:" + name] = it[1]
    return ("VEC", name)


def h_pop_front(ex, path, vals, args):
    ex.fresh += 1
    d = z3.BitVec("pop_front_is_some_%d" % ex.fresh, 8)
    path.pc.append(z3.Or(d == 0, d == 1))
    return S.enum(d, {1: [z3.BitVec("region_id_%d" % ex.fresh, 32)]})


def h_map_get(ex, path, vals, args):
    # the key was taken from this map's keys(): present by construction (the code expects it)
    return S.some(("VEC", "region"))


def h_values_next(ex, path, vals, args):
    ex.fresh += 1
    d = z3.BitVec("values_next_is_some_%d" % ex.fresh, 8)
    path.pc.append(z3.Or(d == 0, d == 1))
    name = "pd_region%d" % ex.fresh
    n = bv("len_" + name)
    path.pc.append(n != 0)                 # depleted regions are removed by retain() after every round
    path.pc.append(z3.ULE(n, z3.BitVecVal(1 << 32, W)))
    path.env["@len:" + name] = n
    return S.enum(d, {1: [("VEC", name)]})


def h_choose(ex, path, vals, args):
    ex.fresh += 1
    d = z3.BitVec("choose_is_some_%d" % ex.fresh, 8)
    path.pc.append(z3.Or(d == 0, d == 1))
    return S.enum(d, {1: [("TUPLE", [bv("chosen_index_%d" % ex.fresh), ("OPAQUE", "&Processor")])]})


def h_remove(ex, path, vals, args):
    key = "@len:" + tok_of(args[0])
    path.env[key] = path.env[key] - 1
    return ("OPAQUE", "Processor")


def h_push(ex, path, vals, args):
    key = "@len:" + tok_of(args[0])
    path.env[key] = path.env[key] + 1
    return ("TUPLE", [])


def h_pop(ex, path, vals, args):
    key = "@len:" + tok_of(args[0])
    n = path.env[key]
    path.env[key] = z3.If(n == 0, n, n - 1)
    return S.enum(z3.If(n == 0, z3.BitVecVal(0, 8), z3.BitVecVal(1, 8)), {1: [("OPAQUE", "Processor")]})


def h_quota_limit(ex, path, vals, args):
    ex.fresh += 1
    d = z3.BitVec("quota_is_some_%d" % ex.fresh, 8)
    path.pc.append(z3.Or(d == 0, d == 1))
    q = bv("quota_limit")
    return S.enum(d, {1: [q]})


def h_map_len(ex, path, vals, args):
    return path.env["@len:map"]


def h_map_iter(ex, path, vals, args):
    return ("SLICE", "map")


def h_iter_sample(ex, path, vals, args):
    amount = args[2]
    n = length(path, args[0])
    ex.fresh += 1
    name = "sampled%d" % ex.fresh
    path.env["@len:" + name] = z3.If(z3.ULE(amount, n), amount, n)
    return ("VEC", name)


def h_into_iter(ex, path, vals, args):
    return ("ITER", length(path, args[0]))


OPAQUE = (
    (r"^HashMap::<u32, Vec<processor::Processor>, foldhash::fast::RandomState>::is_empty$", "map_is_empty", "bool?"),
    (r"^HashMap::<u32, Vec<processor::Processor>, foldhash::fast::RandomState>::values_mut$", "values_mut", "unit"),
    (r"^<std::collections::hash_map::ValuesMut<'_, u32, Vec<processor::Processor>> as IntoIterator>::into_iter$", "into_iter", "pass"),
    (r"^<std::collections::hash_map::ValuesMut<'_, u32, Vec<processor::Processor>> as Iterator>::next$", "values_next", h_values_next),
    (r"^core::slice::<impl \[processor::Processor\]>::iter$", "slice_iter", "pass"),
    (r"^<std::slice::Iter<'_, processor::Processor> as Iterator>::enumerate$", "enumerate", "pass"),
    (r"IteratorRandom>::choose::<ThreadRng>$", "choose", h_choose),
    (r"^<processor::Processor as Clone>::clone$", "clone", "unit"),
    (r"^Vec::<processor::Processor>::remove$", "remove", h_remove),
    (r"^Vec::<processor::Processor>::push$", "push", h_push),
    (r"^Vec::<processor::Processor>::pop$", "pop", h_pop),
    (r"^processor_set_builder::ProcessorSetBuilder::resource_quota_processor_count_limit$", "quota_limit", h_quota_limit),
    (r"^HashMap::<u32, Vec<processor::Processor>, foldhash::fast::RandomState>::retain::<", "retain", "unit"),
    (r"^HashMap::<u32, Vec<processor::Processor>, foldhash::fast::RandomState>::len$", "map_len", h_map_len),
    (r"^HashMap::<u32, Vec<processor::Processor>, foldhash::fast::RandomState>::iter$", "map_iter", h_map_iter),
    (r"^<std::collections::hash_map::Iter<'_, u32, Vec<processor::Processor>> as rand::prelude::IteratorRandom>::sample::<ThreadRng>$", "iter_sample", h_iter_sample),
    (r"^<Vec<\(&u32, &Vec<processor::Processor>\)> as IntoIterator>::into_iter$", "vec_into_iter", h_into_iter),
    (r"^<std::vec::IntoIter<\(&u32, &Vec<processor::Processor>\)> as Iterator>::map::<", "iter_map", "pass"),
    (r"^Vec::<processor::Processor>::len$", "len", h_len),
    (r"^<Vec<processor::Processor> as Deref>::deref$", "deref", "pass"),
    (r"^rng$", "rng", "unit"),
    (r"^NonZero::<usize>::get$", "get", "pass"),
    (r"IndexedRandom>::sample::<ThreadRng>$", "sample", h_sample),
    (r"^<IndexedSamples<'_, \[processor::Processor\], processor::Processor> as Iterator>::cloned", "cloned", "pass"),
    (r"^<Vec<processor::Processor> as Extend<processor::Processor>>::extend::<", "extend", h_extend),
    (r"as Itertools>::collect_vec$", "collect_vec", h_collect),
    (r"^VecDeque::<u32>::pop_front$", "pop_front", h_pop_front),
    (r"^HashMap::<u32, Vec<processor::Processor>, foldhash::fast::RandomState>::get::<u32>$", "map_get", h_map_get),
)


def preds(fn):
    p = {}
    for name, blk in fn.blocks.items():
        if blk.cleanup or not blk.term:
            continue
        t = blk.term[0]
        head = t.split("unwind")[0] if "-> [return:" in t else t
        for b in re.findall(r"bb\d+", head.split("->", 1)[1] if "->" in head else ""):
            p.setdefault(b, []).append(name)
    return p


def block_with_call(fn, rx, nth=0):
    hits = [n for n, b in fn.blocks.items() if not b.cleanup and b.term and re.search(rx, b.term[0])]
    if len(hits) <= nth:
        raise S.Unsupported("no block calls %s" % rx)
    return hits[nth]


def ret_target(fn, bb):
    m = re.search(r"-> \[return: (bb\d+)", fn.blocks[bb].term[0])
    return m.group(1)


def call_dst_and_args(fn, bb):
    t = fn.blocks[bb].term[0]
    m = re.match(r"^(_\d+) = .*?\((.*)\) -> \[return", t)
    return m.group(1), m.group(2)


def find_take(funcs):
    c = [f for k, f in funcs.items() if re.search(TAKE_RE, k)]
    if len(c) != 1:
        raise S.Unsupported("ProcessorSetBuilder::take not found exactly once (%d)" % len(c))
    return c[0]


def s2_prefer_same(fn, funcs, out):
    """inductive step of the PreferSame loop"""
    P = preds(fn)
    b_pop = block_with_call(fn, r"VecDeque::<u32>::pop_front\(")
    b_sw = P[b_pop][0]
    b_head = P[b_sw][0]
    th = fn.blocks[b_head].term[0]
    if "Vec::<processor::Processor>::len(" not in th:
        raise S.Unsupported("PreferSame loop head is not a len() call: %s" % th)
    ms = re.match(r"^switchInt\(.+?\) -> \[0: (bb\d+), otherwise: (bb\d+)\];$", fn.blocks[b_sw].term[0])
    if not ms or ms.group(2) != b_pop:
        raise S.Unsupported("PreferSame loop test has an unexpected shape: %s" % fn.blocks[b_sw].term[0])
    b_exit = ms.group(1)
    # locals: the processors vec (argument of the head's len), the count (operand of Lt), the deque, the map
    dst_len, arg = call_dst_and_args(fn, b_head)
    ref_local = re.match(r"^(?:move|copy) (_\d+)$", arg.strip()).group(1)
    vec_local = None
    for (text, _) in fn.blocks[b_head].stmts:
        m = re.match(r"^%s = &(_\d+);$" % re.escape(ref_local), text)
        if m:
            vec_local = m.group(1)
    lt = [t for (t, _) in fn.blocks[b_sw].stmts if re.match(r"^_\d+ = Lt\(move %s, copy (_\d+)\);$" % re.escape(dst_len), t)]
    if vec_local is None or len(lt) != 1:
        raise S.Unsupported("PreferSame loop head: cannot identify the vector / count locals")
    count_local = re.match(r"^_\d+ = Lt\(move _\d+, copy (_\d+)\);$", lt[0]).group(1)
    _, pop_arg = call_dst_and_args(fn, b_pop)
    deque_ref = re.match(r"^(?:move|copy) (_\d+)$", pop_arg.strip()).group(1)
    deque_local = None
    for (text, _) in fn.blocks[b_pop].stmts:
        m = re.match(r"^%s = &mut (_\d+);$" % re.escape(deque_ref), text)
        if m:
            deque_local = m.group(1)
    b_res = block_with_call(fn, r"FromResidual<Option<Infallible>>>::from_residual\(")   # first `?` after the head = pop_front()?
    # the from_residual that belongs to this loop is the one reachable from the pop block
    res_blocks = [n for n, b in fn.blocks.items() if not b.cleanup and b.term and "from_residual(" in b.term[0]]
    ex = S.SymExec(funcs, OPAQUE, {})
    count, plen, rlen = bv("count"), bv("processors_len"), bv("region_len")
    env = {vec_local: ("VEC", "processors"), "@len:processors": plen, count_local: count, deque_local: ("DEQUE", "regions"),
           "@len:region": rlen}
    # the candidates map local: whatever `HashMap::get` is called on is handled by the opaque handler
    for n, b in fn.blocks.items():
        for (text, _) in b.stmts:
            m = re.match(r"^(_\d+) = &(_\d+);$", text)
            if m and m.group(2) not in env and m.group(2) != vec_local:
                pass
    pre = [count != 0, z3.ULE(plen, count), rlen != 0, z3.ULE(rlen, z3.BitVecVal(1 << 32, W)), z3.ULE(count, z3.BitVecVal(1 << 32, W))]
    stop = tuple([b_head, b_exit] + [ret_target(fn, r) for r in res_blocks])
    paths = ex.run(fn, b_head, env, stop=stop)
    viol = []
    kinds = set()
    for pa in paths:
        kind = pa.outcome[0]
        if kind in ("PANIC", "UNREACHABLE"):
            r, m, s = check(pre + pa.pc)
            out["queries"].append(dict(q="S2 PreferSame step: %s path infeasible (%s)" % (kind.lower(), pa.outcome[1] if kind == "PANIC" else ""), result=str(r), s=s))
            if r == z3.sat:
                viol.append(dict(label="PreferSame selection step panics: %s" % (pa.outcome[1],), line=pa.outcome[-1], policy="prefer_same",
                                 assignment=dict(count=m.eval(count, True).as_long(), processors_len=m.eval(plen, True).as_long(), region_len=m.eval(rlen, True).as_long())))
            elif r != z3.unsat:
                out["noverdict"].append("S2 panic path: solver %s" % r)
            continue
        if kind != "EXIT":
            raise S.Unsupported("PreferSame step path ends with %r" % (pa.outcome,))
        tgt = pa.outcome[1]
        now = pa.env["@len:processors"]
        if tgt == b_head:
            kinds.add("re-enter")
            post = z3.ULE(now, count)
            what = "re-enters the loop head with processors.len() <= count"
        elif tgt == b_exit:
            kinds.add("exit")
            post = now == count
            what = "leaves the loop with processors.len() == count"
        else:
            kinds.add("none")
            post = z3.BoolVal(True)
            what = "returns None (regions exhausted)"
        # replay-friendly assignment first (a first region of processors_len candidates, then this one)
        r, m, s = check(pre + pa.pc + [z3.Not(post), z3.ULE(rlen, plen), plen != 0, z3.ULE(count, 12)])
        if r == z3.unsat:
            r, m, s2 = check(pre + pa.pc + [z3.Not(post)])
            s += s2
        out["queries"].append(dict(q="S2 PreferSame step: " + what, result=str(r), s=s))
        if r == z3.sat:
            viol.append(dict(label="PreferSame selection step breaks the count invariant: %s fails" % what, line=None, policy="prefer_same",
                             assignment=dict(count=m.eval(count, True).as_long(), processors_len=m.eval(plen, True).as_long(), region_len=m.eval(rlen, True).as_long())))
        elif r != z3.unsat:
            out["noverdict"].append("S2: solver %s" % r)
    out["witness"].append(dict(q="S2 reached the outcomes %s" % sorted(kinds), ok=kinds == {"re-enter", "exit", "none"}))
    out["functions"].append("ProcessorSetBuilder::take, blocks %s..(back to %s | exit %s | `?` return) = one iteration of the PreferSame loop (MIR, %d paths)" % (b_head, b_head, b_exit, len(paths)))
    return viol


def s1_any(fn, funcs, out):
    """policy Any: length test .. collect_vec"""
    b_collect = None
    for n, b in fn.blocks.items():
        if b.cleanup or not b.term:
            continue
        if "as Itertools>::collect_vec(" in b.term[0] and "Cloned<IndexedSamples" in b.term[0]:
            b_collect = n
            break
    if b_collect is None:
        raise S.Unsupported("Any arm: collect_vec of the sampled processors not found")
    P = preds(fn)
    # walk back to the block that computes the Lt test: collect <- cloned <- sample <- get <- rng <- deref <- switch
    cur = b_collect
    chain = [cur]
    for _ in range(12):
        cur = P[cur][0]
        chain.append(cur)
        if fn.blocks[cur].term[0].startswith("switchInt("):
            break
    b_sw = cur
    if not fn.blocks[b_sw].term[0].startswith("switchInt("):
        raise S.Unsupported("Any arm: length test not found")
    lt = [t for (t, _) in fn.blocks[b_sw].stmts if " = Lt(" in t]
    if len(lt) != 1:
        raise S.Unsupported("Any arm: unexpected test %r" % (fn.blocks[b_sw].stmts,))
    m = re.match(r"^_\d+ = Lt\(move (_\d+), move (_\d+)\);$", lt[0])
    len_local, cnt_local = m.group(1), m.group(2)
    ms = re.match(r"^switchInt\(.+?\) -> \[0: (bb\d+), otherwise: (bb\d+)\];$", fn.blocks[b_sw].term[0])
    b_none = ms.group(2)
    # the sampled slice is the deref of the all-processors vec; find the vec local from the deref block
    b_deref = ms.group(1)
    _, darg = call_dst_and_args(fn, b_deref)
    dref = re.match(r"^(?:move|copy) (_\d+)$", darg.strip()).group(1)
    vec_local = None
    for (text, _) in fn.blocks[b_deref].stmts:
        mm = re.match(r"^%s = &(_\d+);$" % re.escape(dref), text)
        if mm:
            vec_local = mm.group(1)
    # NonZero count local: argument of NonZero::get in the chain
    nz_local = None
    for n in chain:
        t = fn.blocks[n].term[0]
        mm = re.match(r"^_\d+ = NonZero::<usize>::get\(copy (_\d+)\)", t)
        if mm:
            nz_local = mm.group(1)
    if vec_local is None or nz_local is None:
        raise S.Unsupported("Any arm: cannot identify the vector / count locals")
    ex = S.SymExec(funcs, OPAQUE, {})
    count, alen = bv("count"), bv("all_len")
    env = {vec_local: ("VEC", "all"), "@len:all": alen, nz_local: count, len_local: alen, cnt_local: count}
    pre = [count != 0]
    # run from the switch block itself (its Lt statement is re-evaluated from the preset locals)
    stop = (ret_target(fn, b_collect), )
    paths = ex.run(fn, b_sw, env, stop=stop + (fn.blocks[b_none].term[0] and ret_target(fn, b_none) if "-> [return:" in fn.blocks[b_none].term[0] else b_none,))
    viol = []
    seen = set()
    for pa in paths:
        if pa.outcome[0] != "EXIT":
            raise S.Unsupported("Any arm path ends with %r" % (pa.outcome,))
        if pa.outcome[1] == ret_target(fn, b_collect):
            seen.add("some")
            vecs = [v for k, v in pa.env.items() if k.startswith("@len:collected")]
            if len(vecs) != 1:
                raise S.Unsupported("Any arm: no collected vector")
            post = z3.And(vecs[0] == count, z3.UGE(alen, count))
            what = "selected exactly n (and n <= candidates)"
        else:
            seen.add("none")
            post = z3.ULT(alen, count)
            what = "None only if fewer than n candidates"
        r, m, s = check(pre + pa.pc + [z3.Not(post)])
        out["queries"].append(dict(q="S1 Any: " + what, result=str(r), s=s))
        if r == z3.sat:
            viol.append(dict(label="policy Any: %s fails" % what, line=None, policy="any",
                             assignment=dict(count=m.eval(count, True).as_long(), all_len=m.eval(alen, True).as_long())))
        elif r != z3.unsat:
            out["noverdict"].append("S1: solver %s" % r)
    out["witness"].append(dict(q="S1 reached %s" % sorted(seen), ok=seen == {"some", "none"}))
    out["functions"].append("ProcessorSetBuilder::take, blocks %s..%s = policy Any (MIR, %d paths)" % (b_sw, b_collect, len(paths)))
    return viol


def s3_require_same_filter(funcs, out):
    """the filter_map closure of RequireSame: Some(region) iff processors.len() >= count"""
    cands = [f for k, f in funcs.items() if re.search(r"processor_set_builder.*::take::\{closure#\d+\}$", k)
             and "Option<&u32>" in f.locals.get("_0", "") and "NonZero<usize>" in f.sig + " ".join(f.locals.values())]
    cands = [f for f in cands if any("Vec::<processor::Processor>::len(" in (b.term[0] if b.term else "") for b in f.blocks.values())]
    if len(cands) != 1:
        raise S.Unsupported("RequireSame filter closure not found exactly once (%d)" % len(cands))
    fn = cands[0]
    ex = S.SymExec(funcs, OPAQUE, {})
    count, rlen = bv("count"), bv("region_len")
    # closure args: _1 = &mut closure env {count: &NonZero<usize>}, _2 = (&u32 region, &Vec processors)
    env = {"_1": ("REFVAL", ("TUPLE", [("REFVAL", count)])), "_2": ("TUPLE", [("REFVAL", z3.BitVec("region_id", 32)), ("VEC", "region")]),
           "@len:region": rlen}
    paths = ex.run(fn, "bb0", env, stop=())
    viol = []
    seen = set()
    for pa in paths:
        if pa.outcome[0] in ("PANIC", "UNREACHABLE"):
            r, m, s = check([count != 0] + pa.pc)
            out["queries"].append(dict(q="S3 RequireSame filter: %s path infeasible" % pa.outcome[0].lower(), result=str(r), s=s))
            if r != z3.unsat:
                out["noverdict"].append("S3 panic path feasible or unknown: %s" % r)
            continue
        v = pa.outcome[1]
        if not (isinstance(v, tuple) and v[0] == "ENUM" and isinstance(v[1], int)):
            raise S.Unsupported("filter closure result %r" % (v,))
        is_some = v[1] == 1
        seen.add(is_some)
        post = z3.UGE(rlen, count) if is_some else z3.ULT(rlen, count)
        r, m, s = check([count != 0] + pa.pc + [z3.Not(post)])
        out["queries"].append(dict(q="S3 RequireSame filter: region %s iff it has %s n candidates" % ("kept" if is_some else "dropped", ">=" if is_some else "<"), result=str(r), s=s))
        if r == z3.sat:
            viol.append(dict(label="RequireSame keeps/drops the wrong regions", line=None, policy="require_same",
                             assignment=dict(count=m.eval(count, True).as_long(), region_len=m.eval(rlen, True).as_long())))
        elif r != z3.unsat:
            out["noverdict"].append("S3: solver %s" % r)
    out["witness"].append(dict(q="S3 reached both results", ok=seen == {True, False}))
    out["functions"].append("%s = RequireSame region filter (MIR, %d paths)" % (fn.name.split(">::")[-1], len(paths)))
    return viol


def s4_prefer_different(fn, funcs, out):
    """PreferDifferent: one step of the outer loop head and one step of the inner `for` loop"""
    P = preds(fn)
    b_next = block_with_call(fn, r"ValuesMut<'_, u32, Vec<processor::Processor>> as Iterator>::next\(")
    b_isempty = None
    for n, b in fn.blocks.items():
        if not b.cleanup and b.term and re.search(r"RandomState>::is_empty\(", b.term[0]) and n in P:
            if any(" = Lt(" in t for (t, _) in fn.blocks[P[n][0]].stmts):
                b_isempty = n
    if b_isempty is None:
        raise S.Unsupported("PreferDifferent: is_empty test inside the loop not found")
    b_sw_outer = P[b_isempty][0]
    # outer head: the block chain len() -> get() -> switch; walk back from the switch to the len call
    cur = b_sw_outer
    b_outer = None
    for _ in range(4):
        cur = P[cur][0]
        if "Vec::<processor::Processor>::len(" in fn.blocks[cur].term[0]:
            b_outer = cur
            break
    if b_outer is None:
        raise S.Unsupported("PreferDifferent outer loop head not found")
    ms = re.match(r"^switchInt\(.+?\) -> \[0: (bb\d+), otherwise: (bb\d+)\];$", fn.blocks[b_sw_outer].term[0])
    b_exit = ms.group(1)
    _, arg = call_dst_and_args(fn, b_outer)
    ref_local = re.match(r"^(?:move|copy) (_\d+)$", arg.strip()).group(1)
    vec_local = [re.match(r"^%s = &(_\d+);$" % re.escape(ref_local), t).group(1) for (t, _) in fn.blocks[b_outer].stmts if re.match(r"^%s = &(_\d+);$" % re.escape(ref_local), t)][0]
    nz_local = None
    for n, b in fn.blocks.items():
        mm = re.match(r"^_\d+ = NonZero::<usize>::get\(copy (_\d+)\)", b.term[0] if b.term else "")
        if mm:
            nz_local = mm.group(1)
    res_blocks = [n for n, b in fn.blocks.items() if not b.cleanup and b.term and "from_residual(" in b.term[0]]
    none_blocks = [n for n, b in fn.blocks.items() if not b.cleanup and any(t.startswith("_0 = Option::<processor_set::ProcessorSet>::None") for (t, _) in b.stmts)]
    count, plen = bv("count"), bv("processors_len")
    base_env = {vec_local: ("VEC", "processors"), "@len:processors": plen, nz_local: count}
    viol = []
    seen = set()
    for frag, start, pre_extra in (("outer head", b_outer, z3.ULE(plen, count)), ("inner step", b_next, z3.ULT(plen, count))):
        ex = S.SymExec(funcs, OPAQUE, {})
        pre = [count != 0, z3.ULE(count, z3.BitVecVal(1 << 32, W)), pre_extra]
        stop = tuple({b_outer, b_next, b_exit} | set(none_blocks) | {ret_target(fn, r) for r in res_blocks})
        paths = ex.run(fn, start, dict(base_env), stop=stop)
        for pa in paths:
            kind = pa.outcome[0]
            if kind in ("PANIC", "UNREACHABLE"):
                r, m, s = check(pre + pa.pc)
                out["queries"].append(dict(q="S4 PreferDifferent %s: %s path infeasible" % (frag, kind.lower()), result=str(r), s=s))
                if r != z3.unsat:
                    out["noverdict"].append("S4 %s: %s path feasible or unknown (%s)" % (frag, kind, pa.outcome))
                continue
            tgt = pa.outcome[1]
            now = pa.env["@len:processors"]
            if tgt == b_exit:
                post, what = now == count, "leaves the loop with processors.len() == count"
            elif tgt == b_next:
                post, what = z3.ULT(now, count), "(re-)enters the inner loop with processors.len() < count"
            elif tgt == b_outer:
                post, what = z3.ULE(now, count), "returns to the outer head with processors.len() <= count"
            else:
                post, what = z3.BoolVal(True), "returns None (candidates exhausted)"
            seen.add((frag, what.split(" with")[0]))
            r, m, s = check(pre + pa.pc + [z3.Not(post), z3.ULE(count, 6)])       # replay-friendly first
            if r == z3.unsat:
                r, m, s2 = check(pre + pa.pc + [z3.Not(post)])
                s += s2
            out["queries"].append(dict(q="S4 PreferDifferent %s: %s" % (frag, what), result=str(r), s=s))
            if r == z3.sat:
                viol.append(dict(label="PreferDifferent %s breaks the count invariant: %s fails" % (frag, what), line=None, policy="prefer_different",
                                 assignment=dict(count=m.eval(count, True).as_long(), processors_len=m.eval(plen, True).as_long())))
            elif r != z3.unsat:
                out["noverdict"].append("S4: solver %s" % r)
        out["functions"].append("ProcessorSetBuilder::take, PreferDifferent %s from %s (MIR, %d paths)" % (frag, start, len(paths)))
    out["witness"].append(dict(q="S4 reached %d distinct outcomes" % len(seen), ok=len(seen) >= 6))
    return viol


def s5_require_different(fn, funcs, out):
    b_len = block_with_call(fn, r"RandomState>::len\(")
    b_collect = None
    for n, b in fn.blocks.items():
        if not b.cleanup and b.term and "as Itertools>::collect_vec(" in b.term[0] and "std::iter::Map<std::vec::IntoIter<(&u32" in b.term[0]:
            b_collect = n
    if b_collect is None:
        raise S.Unsupported("RequireDifferent collect_vec not found")
    nz_local = re.match(r"^_\d+ = NonZero::<usize>::get\(copy (_\d+)\)", fn.blocks[ret_target(fn, b_len)].term[0]).group(1)
    none_blocks = [n for n, b in fn.blocks.items() if not b.cleanup and any(t.startswith("_0 = Option::<processor_set::ProcessorSet>::None") for (t, _) in b.stmts)]
    ex = S.SymExec(funcs, OPAQUE, {})
    count, mlen = bv("count"), bv("regions")
    env = {nz_local: count, "@len:map": mlen}
    pre = [count != 0, z3.ULE(mlen, z3.BitVecVal(1 << 32, W))]
    paths = ex.run(fn, b_len, env, stop=tuple([ret_target(fn, b_collect)] + none_blocks))
    viol = []
    seen = set()
    for pa in paths:
        if pa.outcome[0] != "EXIT":
            raise S.Unsupported("RequireDifferent path ends with %r" % (pa.outcome,))
        if pa.outcome[1] == ret_target(fn, b_collect):
            seen.add("some")
            vecs = [v for k, v in pa.env.items() if k.startswith("@len:collected")]
            post = z3.And(vecs[0] == count, z3.UGE(mlen, count))
            what = "one processor from each of exactly n regions"
        else:
            seen.add("none")
            post = z3.ULT(mlen, count)
            what = "None only if fewer than n regions"
        r, m, s = check(pre + pa.pc + [z3.Not(post)])
        out["queries"].append(dict(q="S5 RequireDifferent: " + what, result=str(r), s=s))
        if r == z3.sat:
            viol.append(dict(label="policy RequireDifferent: %s fails" % what, line=None, policy="require_different",
                             assignment=dict(count=m.eval(count, True).as_long(), regions=m.eval(mlen, True).as_long())))
        elif r != z3.unsat:
            out["noverdict"].append("S5: solver %s" % r)
    out["witness"].append(dict(q="S5 reached %s" % sorted(seen), ok=seen == {"some", "none"}))
    out["functions"].append("ProcessorSetBuilder::take, blocks %s..%s = policy RequireDifferent (MIR, %d paths)" % (b_len, b_collect, len(paths)))
    return viol


def s6_prefer_same_sort_key(funcs, out):
    """PreferSame visits regions in descending order of this key: min(candidates in the region, n).
    Regions that can satisfy the request alone (>= n candidates) therefore all get the top key n and
    are visited before any smaller region - what 'as few regions as possible' rests on."""
    cands = [f for k, f in funcs.items() if re.search(r"processor_set_builder.*::take::\{closure#\d+\}$", k)
             and f.locals.get("_0", "") == "usize" and any("Ord>::min(" in (b.term[0] if b.term else "") for b in f.blocks.values())]
    if len(cands) != 1:
        raise S.Unsupported("PreferSame sort-key closure not found exactly once (%d)" % len(cands))
    fn = cands[0]
    ex = S.SymExec(funcs, OPAQUE, {})
    count, rlen, nregions = bv("count"), bv("region_len"), bv("number_of_regions")
    # closure env: (&HashMap candidates, &usize count); the map's own length is tracked so that a key that
    # depends on it (instead of on count) is visible
    env = {"_1": ("REFVAL", ("TUPLE", [("MAP", "candidates"), ("REFVAL", count)])), "_2": ("REFVAL", z3.BitVec("region_id", 32)),
           "@len:region": rlen, "@len:map": nregions}
    paths = ex.run(fn, "bb0", env, stop=())
    viol = []
    for pa in paths:
        if pa.outcome[0] != "RETURN":
            r, m, s = check([count != 0] + pa.pc)
            out["queries"].append(dict(q="S6 PreferSame sort key: %s path infeasible" % pa.outcome[0].lower(), result=str(r), s=s))
            if r != z3.unsat:
                out["noverdict"].append("S6 panic path feasible or unknown: %s" % (pa.outcome,))
            continue
        key = pa.outcome[1]
        if not S.is_bv(key):
            raise S.Unsupported("sort key %r" % (key,))
        post = key == z3.If(z3.ULE(rlen, count), rlen, count)
        r, m, s = check([count != 0, rlen != 0] + pa.pc + [z3.Not(post), z3.ULE(count, 8), z3.ULE(rlen, 8), z3.ULE(nregions, 4), nregions != 0])
        if r == z3.unsat:
            r, m, s2 = check([count != 0, rlen != 0] + pa.pc + [z3.Not(post)])
            s += s2
        out["queries"].append(dict(q="S6 PreferSame sort key = min(candidates in the region, n)", result=str(r), s=s))
        if r == z3.sat:
            viol.append(dict(label="PreferSame orders regions by a different key than min(region size, n)", line=None, policy="prefer_same_order",
                             assignment=dict(count=m.eval(count, True).as_long(), region_len=m.eval(rlen, True).as_long(), regions=m.eval(nregions, True).as_long(),
                                             key=m.eval(key, True).as_long())))
        elif r != z3.unsat:
            out["noverdict"].append("S6: solver %s" % r)
    out["functions"].append("%s = PreferSame region sort key (MIR, %d paths)" % (fn.name.split(">::")[-1], len(paths)))
    return viol


def s7_quota_guard(fn, funcs, out):
    """take(n): the quota guard at the entry: None iff a limit exists and n exceeds it"""
    b_cand = block_with_call(fn, r"ProcessorSetBuilder::candidates_by_memory_region\(")
    none_blocks = [n for n, b in fn.blocks.items() if not b.cleanup and any(t.startswith("_0 = Option::<processor_set::ProcessorSet>::None") for (t, _) in b.stmts)]
    ex = S.SymExec(funcs, OPAQUE, {})
    count = bv("count")
    env = {"_1": ("OPAQUE", "self"), "_2": count}
    paths = ex.run(fn, "bb0", env, stop=tuple([b_cand] + none_blocks))
    viol = []
    seen = set()
    q = bv("quota_limit")
    for pa in paths:
        if pa.outcome[0] != "EXIT":
            r, m, s = check([count != 0] + pa.pc)
            out["queries"].append(dict(q="S7 quota guard: %s path infeasible" % pa.outcome[0].lower(), result=str(r), s=s))
            if r != z3.unsat:
                out["noverdict"].append("S7: %s feasible or unknown" % (pa.outcome,))
            continue
        some = z3.Or(*[c for c in pa.pc if "quota_is_some" in str(c) and "== 1" in str(c).replace("\n", " ")]) if False else None
        dvars = [v for c in pa.pc for v in _vars(c) if str(v).startswith("quota_is_some")]
        d = dvars[0] if dvars else None
        if d is None:
            raise S.Unsupported("quota guard path without the limit call")
        if pa.outcome[1] == b_cand:
            seen.add("proceeds")
            post = z3.Or(d == 0, z3.ULE(count, q))
            what = "selection proceeds only if there is no limit or n <= limit"
        else:
            seen.add("none")
            post = z3.And(d == 1, z3.UGT(count, q))
            what = "None at the guard only if a limit exists and n exceeds it"
        r, m, s = check([count != 0] + pa.pc + [z3.Not(post), z3.ULE(count, 40), z3.ULE(q, 40)])     # replay-friendly first
        if r == z3.unsat:
            r, m, s2 = check([count != 0] + pa.pc + [z3.Not(post)])
            s += s2
        out["queries"].append(dict(q="S7 quota guard: " + what, result=str(r), s=s))
        if r == z3.sat:
            viol.append(dict(label="take(n) quota guard: %s fails" % what, line=None, policy="quota_guard",
                             assignment=dict(count=m.eval(count, True).as_long(), limit=m.eval(q, True).as_long(), has_limit=m.eval(d, True).as_long())))
        elif r != z3.unsat:
            out["noverdict"].append("S7: solver %s" % r)
    out["witness"].append(dict(q="S7 reached %s" % sorted(seen), ok=seen == {"proceeds", "none"}))
    out["functions"].append("ProcessorSetBuilder::take, blocks bb0..%s = resource-quota guard (MIR, %d paths)" % (b_cand, len(paths)))
    return viol


def _vars(e):
    out = []
    def go(x):
        if z3.is_const(x) and x.decl().kind() == z3.Z3_OP_UNINTERPRETED:
            out.append(x)
        for c in x.children():
            go(c)
    go(e)
    return out


def s8_quota_cut(funcs, out):
    """reduce_processors_until_under_quota: no limit -> unchanged; limit -> one inductive step of the pop loop"""
    c = [f for k, f in funcs.items() if re.search(r"processor_set_builder.*::reduce_processors_until_under_quota$", k)]
    if len(c) != 1:
        raise S.Unsupported("reduce_processors_until_under_quota not found exactly once (%d)" % len(c))
    fn = c[0]
    P = preds(fn)
    b_pop = block_with_call(fn, r"Vec::<processor::Processor>::pop\(")
    b_sw = P[b_pop][0]
    b_head = P[b_sw][0]
    ms = re.match(r"^switchInt\(.+?\) -> \[0: (bb\d+), otherwise: (bb\d+)\];$", fn.blocks[b_sw].term[0])
    b_exit = ms.group(1)
    _, arg = call_dst_and_args(fn, b_head)
    ref_local = re.match(r"^(?:move|copy) (_\d+)$", arg.strip()).group(1)
    vec_local = [re.match(r"^%s = &(_\d+);$" % re.escape(ref_local), t).group(1) for (t, _) in fn.blocks[b_head].stmts if re.match(r"^%s = &(_\d+);$" % re.escape(ref_local), t)][0]
    cmp_ = [t for (t, _) in fn.blocks[b_sw].stmts if re.match(r"^_\d+ = (Gt|Ge|Lt|Le|Ne|Eq)\(move _\d+, copy (_\d+)\);$", t)]
    if len(cmp_) != 1:
        raise S.Unsupported("quota cut loop test has an unexpected shape: %r" % (fn.blocks[b_sw].stmts,))
    lim_local = re.match(r"^_\d+ = \w+\(move _\d+, copy (_\d+)\);$", cmp_[0]).group(1)
    viol = []
    # (a) entry: no limit -> the vector is returned unchanged; limit -> the loop head is reached with the same vector
    ex = S.SymExec(funcs, OPAQUE, {})
    plen0 = bv("processors_len")
    paths = ex.run(fn, "bb0", {"_1": ("OPAQUE", "self"), "_2": ("VEC", "processors"), "@len:processors": plen0}, stop=(b_head,))
    seen = set()
    for pa in paths:
        if pa.outcome[0] == "RETURN":
            seen.add("unchanged")
            v = pa.outcome[1]
            ok = isinstance(v, tuple) and v == ("VEC", "processors")
            dvars = [x for c_ in pa.pc for x in _vars(c_) if str(x).startswith("quota_is_some")]
            r, m, s = check(pa.pc + [dvars[0] != 0]) if dvars else (z3.sat, None, 0)
            out["queries"].append(dict(q="S8 quota cut: the early return (vector unchanged) happens only without a limit", result=str(r) if ok else "sat", s=s))
            if not ok or r != z3.unsat:
                viol.append(dict(label="quota cut returns early although a limit exists (or returns a different vector)", line=None, policy="quota_cut", assignment=dict(count=1, limit=1, processors_len=2)))
        elif pa.outcome[0] == "EXIT":
            seen.add("loop")
        else:
            r, m, s = check(pa.pc)
            out["queries"].append(dict(q="S8 quota cut entry: %s path infeasible" % pa.outcome[0].lower(), result=str(r), s=s))
            if r != z3.unsat:
                out["noverdict"].append("S8 entry: %s feasible or unknown" % (pa.outcome,))
    # (b) one step of the loop from an arbitrary length
    ex = S.SymExec(funcs, OPAQUE, {})
    plen, lim = bv("processors_len"), bv("quota_limit")
    paths2 = ex.run(fn, b_head, {vec_local: ("VEC", "processors"), "@len:processors": plen, lim_local: lim}, stop=(b_head, b_exit))
    for pa in paths2:
        if pa.outcome[0] in ("PANIC", "UNREACHABLE"):
            r, m, s = check(pa.pc)
            out["queries"].append(dict(q="S8 quota cut step: %s path infeasible (%s)" % (pa.outcome[0].lower(), pa.outcome[1]), result=str(r), s=s))
            if r == z3.sat:
                viol.append(dict(label="quota cut loop panics", line=pa.outcome[-1], policy="quota_cut",
                                 assignment=dict(processors_len=m.eval(plen, True).as_long(), limit=m.eval(lim, True).as_long(), count=1)))
            continue
        now = pa.env["@len:processors"]
        if pa.outcome[1] == b_exit:
            seen.add("exit")
            post, what = z3.And(z3.ULE(now, lim), now == plen), "leaves the loop with len <= limit, nothing removed on the way out"
        else:
            seen.add("step")
            post, what = z3.And(now == plen - 1, z3.UGT(plen, lim)), "removes exactly one processor, and only while len > limit"
        r, m, s = check(pa.pc + [z3.Not(post), z3.ULE(plen, 40), z3.ULE(lim, 40)])     # replay-friendly first
        if r == z3.unsat:
            r, m, s2 = check(pa.pc + [z3.Not(post)])
            s += s2
        out["queries"].append(dict(q="S8 quota cut step: " + what, result=str(r), s=s))
        if r == z3.sat:
            viol.append(dict(label="quota cut loop: %s fails" % what, line=None, policy="quota_cut",
                             assignment=dict(processors_len=m.eval(plen, True).as_long(), limit=m.eval(lim, True).as_long(), count=1)))
        elif r != z3.unsat:
            out["noverdict"].append("S8: solver %s" % r)
    out["witness"].append(dict(q="S8 reached %s" % sorted(seen), ok=seen == {"unchanged", "loop", "exit", "step"}))
    out["functions"].append("%s (MIR, entry %d paths, loop step %d paths)" % (fn.name.split(">::")[-1], len(paths), len(paths2)))
    return viol


def s9_take_all_applies_cut(funcs, out):
    """take_all: on EVERY path (all five region policies) the vector handed to NonEmpty::from_vec - and so
    the returned set - is the result of reduce_processors_until_under_quota applied to the arm's vector.
    A path property over the whole (loop-free) MIR of take_all; callees are opaque."""
    c = [f for k, f in funcs.items() if re.search(r"processor_set_builder.*>::take_all$", k)]
    if len(c) != 1:
        raise S.Unsupported("take_all not found exactly once (%d)" % len(c))
    fn = c[0]
    ex = S.SymExec(funcs, (), {}, lenient=True)
    paths = ex.run(fn, "bb0", {"_1": ("OPAQUE", "self")}, stop=())
    viol = []
    n_some = 0
    arms = set()
    for pa in paths:
        if pa.outcome[0] != "RETURN":
            continue                         # expect() arms of the opaque Option results, unreachable selector values
        calls = [e for e in pa.events if e[0] == "call"]
        news = [e for e in calls if re.search(r"ProcessorSet::new$", e[1])]
        if not news:
            continue                         # returned None before building a set
        r, m, s = check(pa.pc)
        if r != z3.sat:
            continue
        n_some += 1
        cuts = [e for e in calls if re.search(r"::reduce_processors_until_under_quota$", e[1])]
        fromvec = [e for e in calls if re.search(r"NonEmpty::<.*>::from_vec$", e[1])]
        ok = len(cuts) == 1 and len(fromvec) == 1 and fromvec[0][2][0] == cuts[0][3]
        # which arm: the callee that produced the vector given to the cut (collect / clone)
        src = cuts[0][2][1] if cuts else None
        arms.add(str(src)[:60])
        out["queries"].append(dict(q="S9 take_all path %d: set built from the quota-cut vector (cut input %s)" % (n_some, str(src)[:50]), result="unsat" if ok else "sat", s=s))
        if not ok:
            viol.append(dict(label="take_all builds its result without applying the quota cut on some path (calls: %s)" % [re.sub(r"<.*", "", e[1].split("::")[-1]) for e in calls][-6:],
                             line=None, policy="quota_cut", assignment=dict(count=1, limit=2, processors_len=4)))
    out["witness"].append(dict(q="S9 saw %d set-building paths over %d distinct arm vectors" % (n_some, len(arms)), ok=n_some >= 3 and len(arms) >= 3))
    out["functions"].append("ProcessorSetBuilder::take_all (whole MIR, %d blocks, %d paths, callees opaque)" % (len(fn.blocks), len(paths)))
    return viol


def replay(v, repo):
    nd = os.path.join(M.VERIF, "native", "selection_replay")
    cache = os.environ.get("FOLO_VERIF_CACHE") or os.path.join(M.VERIF, ".cache")
    src = nd
    if repo != "/repo":
        src = os.path.join(cache, "extsrc", "selection_replay")
        shutil.rmtree(src, ignore_errors=True)
        shutil.copytree(nd, src, ignore=shutil.ignore_patterns("target", "Cargo.lock"))
        ct = os.path.join(src, "Cargo.toml")
        txt = open(ct).read().replace("/repo/packages/", repo.rstrip("/") + "/packages/")
        with open(ct, "w") as f:
            f.write(txt)
    tdir = os.path.join(cache, "native", "selection_replay")
    env = dict(os.environ)
    env["CARGO_NET_OFFLINE"] = "true"
    env.pop("RUSTFLAGS", None)
    shutil.copyfile(os.path.join(repo, "Cargo.lock"), os.path.join(src, "Cargo.lock"))
    a = v["assignment"]
    pol = v["policy"]
    n = a["count"]
    # candidate hardware shapes (region sizes) derived from the assignment; the violation is
    # reproduced if the real crate breaks C09's cardinality clause on any of them
    if pol == "quota_guard":
        lim = max(1, min(a.get("limit", 1), 40))
        shapes = [(k, [lim, lim + 3]) for k in sorted({max(1, min(a["count"], 44)), lim, lim + 1, max(1, lim - 1)})]
        pol = "quota_take"
    elif pol == "quota_cut":
        lim = max(1, min(a.get("limit", 1), 40))
        shapes = [(1, [lim, lim + 2]), (1, [lim, 2, 2, lim]), (1, [lim, 1, 1, 1, 1, 1][: lim + 3])]
        pol = "quota_take_all"
    elif pol == "prefer_same_order":
        # a region that can satisfy the request alone next to smaller ones: the result must stay inside one region
        shapes = [[max(1, n - 1), n + 1], [max(1, n // 2), n + 3, max(1, n // 2)], [n + 1] + [max(1, n - 1)] * 3,
                  (5, [2, 6]), (8, [3, 9, 3]), (6, [2, 2, 7]), (7, [4, 4, 4, 8])]
        pol = "prefer_same_one_region"
    elif pol == "prefer_same":
        shapes = [[a["processors_len"], a["region_len"]] if a["processors_len"] else [a["region_len"]]]
    elif pol == "any":
        shapes = [[a["all_len"]]]
    elif pol == "prefer_different":
        shapes = [[1] * (n + 1), [max(1, n // 2), max(1, n - n // 2), 1], [n, n], [1] * max(1, n - 1) + [2]]
    elif pol == "require_different":
        shapes = [[1] * max(1, a["regions"]), [2] * max(1, a["regions"])]
    else:
        shapes = [[a["region_len"]], [a["region_len"], a["region_len"]]]
    shapes = [sh if isinstance(sh, tuple) else (n, sh) for sh in shapes]
    if n > 64 or any(x > 64 or x == 0 for (_, sh) in shapes for x in sh) or any(len(sh) > 65 for (_, sh) in shapes):
        return dict(skipped="assignment too large (or degenerate) to build as fake hardware: %s" % a)
    res = {}
    for prof in ("dev", "release"):
        b = subprocess.run(["cargo", "build", "-q", "--offline", "--target-dir", tdir] + (["--release"] if prof == "release" else []),
                           cwd=src, env=env, capture_output=True, text=True, timeout=1800)
        if b.returncode != 0:
            res[prof] = dict(error="build failed: " + b.stderr[-300:])
            continue
        exe = os.path.join(tdir, "debug" if prof == "dev" else "release", "folo_verif_selection_replay")
        res[prof] = dict(rc=0, tried=[])
        for (nn, sizes) in shapes:
            r = subprocess.run([exe, pol, str(nn)] + [str(x) for x in sizes], capture_output=True, text=True, timeout=120)
            res[prof]["tried"].append([pol, nn] + sizes)
            if r.returncode != 0:
                res[prof].update(rc=r.returncode, stderr=r.stderr[-300:], stdout=r.stdout[-200:], args=[pol, nn] + sizes)
                break
    return res


OUTSIDE = [
    "everything but cardinality: membership in the source set, filters / exclusions / efficiency classes, distinctness, the region constraints themselves (which regions the chosen processors come from), which processors take_all selects per policy, the float quota -> floor(max_processor_time).max(1) conversion; in RequireDifferent the per-region closure (one processor per chosen region) is assumed to yield one element",
    "the containers and the random sampling themselves (abstracted to their documented length contracts, listed in the evidence assumptions)",
    "more than 2^32 processors / regions (lengths are assumed <= 2^32 so that usize sums cannot wrap)",
]
ASSUMPTIONS = [
    "mirsym: containers are abstracted to a symbolic length; Vec::len returns it; slice.sample(rng, amount) yields min(amount, len) elements (rand's documented contract); Vec::extend adds the number of yielded elements; collect_vec has the yielded length",
    "mirsym: VecDeque::pop_front returns an arbitrary Some/None; HashMap::get of a key taken from keys() returns Some; every candidate region is non-empty (regions are built by grouping candidates)",
    "mirsym: resource_quota_processor_count_limit() is an arbitrary Option<usize>; Vec::pop returns Some and shortens a non-empty vector by one, None on an empty one",
    "mirsym: Try::branch / FromResidual for Option, <usize as Ord>::min, NonZero::get by their documented semantics",
    "mirsym: HashMap::values_mut().next() is an arbitrary Some(non-empty region)/None; IteratorRandom::choose is an arbitrary Some/None; Vec::remove / Vec::push change the length by one; HashMap::len / iter().sample(rng, n) / into_iter / map / collect_vec carry min(n, len) elements; HashMap::is_empty and retain are opaque",
]


def main():
    t0 = time.time()
    out = dict(check="selection_count", queries=[], witness=[], functions=[], noverdict=[], violations=[], outside=OUTSIDE, assumptions=ASSUMPTIONS)
    if len(sys.argv) > 2 and sys.argv[1] == "--replay":
        v = json.loads(sys.argv[2])
        rp = replay(v, M.REPO)
        out["replay"] = rp
        out["reproduced"] = any(isinstance(x, dict) and x.get("rc") not in (0, None) for x in rp.values()) if "skipped" not in rp else False
        print(json.dumps(out))
        return
    try:
        path = M.dump("many_cpus_impl")
        funcs = M.parse(path)
        out["mir"] = path
    except RuntimeError as e:
        out["noverdict"].append("mir dump: %s" % e)
        print(json.dumps(out))
        return
    viol = []
    try:
        fn = find_take(funcs)
    except S.Unsupported as e:
        out["noverdict"].append(str(e))
        print(json.dumps(out))
        return
    for name, q in (("s1_any", lambda: s1_any(fn, funcs, out)), ("s2_prefer_same", lambda: s2_prefer_same(fn, funcs, out)), ("s3_require_same_filter", lambda: s3_require_same_filter(funcs, out)),
                    ("s4_prefer_different", lambda: s4_prefer_different(fn, funcs, out)), ("s5_require_different", lambda: s5_require_different(fn, funcs, out)),
                    ("s6_prefer_same_sort_key", lambda: s6_prefer_same_sort_key(funcs, out)),
                    ("s7_quota_guard", lambda: s7_quota_guard(fn, funcs, out)), ("s8_quota_cut", lambda: s8_quota_cut(funcs, out)),
                    ("s9_take_all_applies_cut", lambda: s9_take_all_applies_cut(funcs, out))):
        try:
            viol += q()
        except (S.Unsupported, KeyError, IndexError, AttributeError) as e:
            out["noverdict"].append("%s unsupported: %s: %s" % (name, type(e).__name__, e))
    for w in out["witness"]:
        if not w["ok"]:
            out["noverdict"].append("vacuity witness failed: " + w["q"])
    for v in viol:
        v["replay"] = replay(v, M.REPO)
        rp = v["replay"]
        v["reproduced"] = any(isinstance(x, dict) and x.get("rc") not in (0, None) for x in rp.values()) if "skipped" not in rp else False
        out["violations"].append(v)
    out["wall_s"] = round(time.time() - t0, 2)
    out["symbolic_states"] = getattr(S.SymExec, "steps", 0)
    out["asserted_formulas"] = ASSERTED[0]
    print(json.dumps(out))


if __name__ == "__main__":
    main()
