"""C20, "the exact two-sided Mann-Whitney p-value ... wherever it is used": the change-point
selection scorer (`selection.rs`, `SplitScorer::new`) decides per split size whether the exact
permutation tail or the normal approximation is used, through the closure
`|&size| exact_mw_feasible(size, n.saturating_sub(size))`. `MannWhitneyU` decides the same question
with `exact_mw_feasible(n1, n2)` for the two sample sizes. This check takes the closure from the MIR
and decides for EVERY (size, n) with size <= n that the feasibility oracle is asked about exactly the
two sides of the split: first argument = size, second = n - size (so first + second = n), and that
the closure returns the oracle's answer unchanged. (`exact_mw_feasible` itself is decided by the
Kani harness c20_exact_feasible_40.)"""
import json
import os
import re
import sys
import time

import z3

sys.path.insert(0, os.path.dirname(os.path.dirname(os.path.abspath(__file__))))
from mirproto import mir as M          # noqa: E402
from mirsym import sym as S            # noqa: E402

ASSERTED = [0]


def check(conds, timeout_s=60):
    ASSERTED[0] += len(conds)
    s = z3.Solver()
    s.set("timeout", timeout_s * 1000)
    s.add(*conds)
    t0 = time.time()
    r = s.check()
    return r, (s.model() if r == z3.sat else None), round(time.time() - t0, 3)


def replay(repo):
    """differential native run over the public API (native/selection_threshold_replay)"""
    import shutil
    import subprocess
    nd = os.path.join(M.VERIF, "native", "selection_threshold_replay")
    cache = os.environ.get("FOLO_VERIF_CACHE") or os.path.join(M.VERIF, ".cache")
    src = nd
    if repo != "/repo":
        src = os.path.join(cache, "extsrc", "selection_threshold_replay")
        shutil.rmtree(src, ignore_errors=True)
        shutil.copytree(nd, src, ignore=shutil.ignore_patterns("target", "Cargo.lock"))
        ct = os.path.join(src, "Cargo.toml")
        txt = open(ct).read().replace("/repo/packages/", repo.rstrip("/") + "/packages/")
        with open(ct, "w") as f:
            f.write(txt)
    tdir = os.path.join(cache, "native", "selection_threshold_replay")
    env = dict(os.environ)
    env["CARGO_NET_OFFLINE"] = "true"
    env.pop("RUSTFLAGS", None)
    shutil.copyfile(os.path.join(repo, "Cargo.lock"), os.path.join(src, "Cargo.lock"))
    res = {}
    for prof in ("dev", "release"):
        b = subprocess.run(["cargo", "build", "-q", "--offline", "--target-dir", tdir] + (["--release"] if prof == "release" else []),
                           cwd=src, env=env, capture_output=True, text=True, timeout=1800)
        if b.returncode != 0:
            res[prof] = dict(error="build failed: " + b.stderr[-300:])
            continue
        exe = os.path.join(tdir, "debug" if prof == "dev" else "release", "folo_verif_selection_threshold_replay")
        r = subprocess.run([exe], capture_output=True, text=True, timeout=900)
        res[prof] = dict(rc=r.returncode, stderr=r.stderr[-300:], stdout=r.stdout[-200:])
    return res


def main():
    t0 = time.time()
    out = dict(check="selection_threshold", queries=[], witness=[], functions=[], noverdict=[], violations=[],
               outside=["which p-value the scorer then computes for the split (exact tail vs normal approximation: float code, see C20's Kani harnesses for the rank layer)",
                        "the take_while / last() driver around the closure"],
               assumptions=["mirsym: usize::saturating_sub by its documented semantics; stats::exact_mw_feasible is opaque here (an arbitrary Boolean per call; decided separately by Kani)"])
    if len(sys.argv) > 2 and sys.argv[1] == "--replay":
        rp = replay(M.REPO)
        out["replay"] = rp
        out["reproduced"] = any(isinstance(x, dict) and x.get("rc") not in (0, None) for x in rp.values())
        print(json.dumps(out))
        return
    try:
        funcs = M.parse(M.dump("cbh_stats"))
    except RuntimeError as e:
        out["noverdict"].append("mir dump: %s" % e)
        print(json.dumps(out))
        return
    try:
        cands = [f for k, f in funcs.items() if re.search(r"^selection::<impl at [^>]*selection\.rs[^>]*>::new::\{closure#\d+\}$", k)
                 and any("exact_mw_feasible(" in (b.term[0] if b.term else "") for b in f.blocks.values())]
        if len(cands) != 1:
            raise S.Unsupported("SplitScorer::new threshold closure not found exactly once (%d)" % len(cands))
        fn = cands[0]
        ex = S.SymExec(funcs, ((r"^stats::exact_mw_feasible$", "feasible", "bool?"),), {})
        size, n = z3.BitVec("size", 64), z3.BitVec("n", 64)
        env = {"_1": ("REFVAL", ("TUPLE", [("REFVAL", n)])), "_2": ("REFVAL", size)}
        pre = [z3.ULE(size, n)]
        paths = ex.run(fn, "bb0", env, stop=())
        for pa in paths:
            if pa.outcome[0] != "RETURN":
                r, m, s = check(pre + pa.pc)
                out["queries"].append(dict(q="threshold closure: %s path infeasible" % pa.outcome[0].lower(), result=str(r), s=s))
                if r != z3.unsat:
                    out["noverdict"].append("panic path feasible or unknown: %s" % (pa.outcome,))
                continue
            calls = [e for e in pa.events if e[0] == "feasible"]
            if len(calls) != 1:
                raise S.Unsupported("closure asks the feasibility oracle %d times" % len(calls))
            a, b = calls[0][1]
            # exact_mw_feasible is symmetric in its arguments (C(n1+n2, min(n1, n2))): either order is the same question
            post = z3.Or(z3.And(a == size, b == n - size), z3.And(a == n - size, b == size))
            r, m, s = check(pre + pa.pc + [z3.Not(post)])
            out["queries"].append(dict(q="threshold closure asks exact_mw_feasible(size, n - size): the two sides of the split", result=str(r), s=s))
            if r == z3.sat:
                asg = dict(size=m.eval(size, True).as_long(), n=m.eval(n, True).as_long(), asked=[m.eval(a, True).as_long(), m.eval(b, True).as_long()])
                # the closure is private: the observable consequence is confirmed natively - some selected split is
                # scored with a different p-value than MannWhitneyU gives for that very split (public API sweep)
                rp = replay(M.REPO)
                out["violations"].append(dict(label="SplitScorer asks the exactness oracle about the wrong split sizes", line=["selection.rs", 0], assignment=asg,
                                              replay=rp, reproduced=any(isinstance(x, dict) and x.get("rc") not in (0, None) for x in rp.values())))
            elif r != z3.unsat:
                out["noverdict"].append("solver %s" % r)
            ret = pa.outcome[1]
            same = S.is_bool(ret) and any(isinstance(x, z3.BoolRef) and x.eq(ret) for x in [ret]) and "opaque_bool" in str(ret) and len(str(ret).split()) == 1
            out["witness"].append(dict(q="closure returns the oracle's answer unchanged (%s)" % ret, ok=bool(same)))
        out["functions"].append("%s (MIR, %d blocks, %d paths)" % (fn.name, len(fn.blocks), len(paths)))
    except S.Unsupported as e:
        out["noverdict"].append("unsupported: %s" % e)
    for w in out["witness"]:
        if not w["ok"]:
            out["noverdict"].append("witness failed: " + w["q"])
    out["wall_s"] = round(time.time() - t0, 2)
    out["symbolic_states"] = getattr(S.SymExec, "steps", 0)
    out["asserted_formulas"] = ASSERTED[0]
    print(json.dumps(out))


if __name__ == "__main__":
    main()
