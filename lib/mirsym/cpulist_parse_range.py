"""C11, id-list codec, parse side: the integer logic of `cpulist::parse_range` (`a-b` and `a-b:s`).

The string layer (`str::parse::<u32>`, `split_once`) is opaque: every call returns an arbitrary
result (Ok with an arbitrary u32 / Err; Some / None), keyed by WHICH string it was applied to. What is
decided, for every combination of those results and every u32 value:

  R1  the function never panics (in particular `step_by` is never reached with a zero stride);
  R2  it returns Err exactly when a number fails to parse, the stride is 0, or start > end;
  R3  otherwise it returns Ok(collect(RangeInclusive::new(start, end).step_by(stride))) where start is
      the number parsed from the text before '-', end from the text after it (up to ':'), and stride
      from the text after ':' - or 1 when there is no ':' part. Together with emit's Q3 (a group is
      emitted as `a-b` with a = start, b = start+len-1 <= u32::MAX) this is the range half of
      "parsing an emitted list returns the same set".

Outside: the std string functions themselves, `collect`/`step_by`/`RangeInclusive` (std), the
`split(',')` / `sorted().dedup()` driver in `parse`, error message contents."""
import json
import os
import sys
import time

import z3

sys.path.insert(0, os.path.dirname(os.path.dirname(os.path.abspath(__file__))))
from mirproto import mir as M          # noqa: E402
from mirsym import sym as S            # noqa: E402

ASSERTED = [0]


def check(conds, timeout_s=60):
    ASSERTED[0] += len(conds)
    s = z3.Solver()
    s.set("timeout", timeout_s * 1000)
    s.add(*conds)
    t0 = time.time()
    r = s.check()
    return r, (s.model() if r == z3.sat else None), round(time.time() - t0, 3)


PARSED = {}      # string token -> (disc, value) : one arbitrary result per distinct string


def tok(v):
    if isinstance(v, tuple) and v and v[0] == "STRTOK":
        return v[1]
    raise S.Unsupported("not a tracked string: %r" % (v,))


def h_parse(ex, path, vals, args):
    t = tok(args[0])
    if t not in PARSED:
        PARSED[t] = (z3.BitVec("parse_%s_is_err" % t, 8), z3.BitVec("parse_%s_value" % t, 32))
    d, v = PARSED[t]
    path.pc.append(z3.Or(d == 0, d == 1))
    return S.enum(d, {0: [v], 1: [("OPAQUE", "ParseIntError")]})


def h_map_err(ex, path, vals, args):
    r = args[0]
    if not (isinstance(r, tuple) and r[0] == "ENUM"):
        raise S.Unsupported("map_err on %r" % (r,))
    return S.enum(r[1], {0: r[2].get(0, [None]), 1: [("OPAQUE", "cpulist::Error")]})


def h_branch(ex, path, vals, args):
    r = args[0]
    if not (isinstance(r, tuple) and r[0] == "ENUM"):
        raise S.Unsupported("Try::branch on %r" % (r,))
    # Ok(x) -> Continue(x) (0), Err(e) -> Break(Err(e)) (1)
    return S.enum(r[1], {0: r[2].get(0, [None]), 1: [S.enum(1, {1: r[2].get(1, [None])})]})


def h_from_residual(ex, path, vals, args):
    return S.enum(1, {1: [("OPAQUE", "cpulist::Error")]})


def h_split_once(ex, path, vals, args):
    d = z3.BitVec("has_stride_part", 8)
    path.pc.append(z3.Or(d == 0, d == 1))
    return S.enum(d, {1: [("TUPLE", [("STRTOK", "end_text"), ("STRTOK", "stride_text")])]})


def h_range_new(ex, path, vals, args):
    return ("RANGE", args[0], args[1], True)             # RangeInclusive::new(a, b): a ..= b


def h_step_by(ex, path, vals, args):
    r = args[0]
    if isinstance(r, tuple) and r and r[0] == "RANGE":
        return ("STEPBY", r[1], r[2], args[1], r[3])
    if isinstance(r, tuple) and r and r[0] == "TUPLE" and len(r[1]) == 2 and all(S.is_bv(x) for x in r[1]):
        return ("STEPBY", r[1][0], r[1][1], args[1], False)   # Range { start, end }: a .. b
    raise S.Unsupported("step_by on %r" % (r,))


def h_collect(ex, path, vals, args):
    return ("VECOF", args[0])


OPAQUE = (
    (r"^core::str::<impl str>::parse::<u32>$", "parse", h_parse),
    (r"^std::result::Result::<u32, ParseIntError>::map_err::<error::Error, ", "map_err", h_map_err),
    (r"^<std::result::Result<u32, error::Error> as Try>::branch$", "branch", h_branch),
    (r"^<std::result::Result<Vec<u32>, error::Error> as FromResidual<std::result::Result<Infallible, error::Error>>>::from_residual$", "from_residual", h_from_residual),
    (r"^core::str::<impl str>::split_once::<char>$", "split_once", h_split_once),
    (r"^std::ops::RangeInclusive::<u32>::new$", "range_new", h_range_new),
    (r"^<std::ops::Range(?:Inclusive)?<u32> as Iterator>::step_by$", "step_by", h_step_by),
    (r"^<StepBy<std::ops::Range(?:Inclusive)?<u32>> as Iterator>::collect::<Vec<u32>>$", "collect", h_collect),
    (r"^<u32 as ToString>::to_string$", "to_string", "unit"),
    (r"^<str as ToString>::to_string$", "to_string", "unit"),
    (r"^error::Error::new::<String, String>$", "error_new", "unit"),
    (r"Argument::<'_>::new_display::<u32>$", "display", "unit"),
    (r"^Arguments::<'_>::new::<\d+, \d+>$", "arguments", "unit"),
    (r"^std::fmt::format$", "format", "unit"),
    (r"^must_use::<String>$", "must_use", "pass"),
)


def replay(asg, repo):
    """public-API replay: cpulist::parse on the range text built from the assignment (all numbers parse)"""
    from mirsym import cpulist_emit as CE
    import subprocess
    import shutil
    nd = os.path.join(M.VERIF, "native", "cpulist_emit_replay")
    cache = os.environ.get("FOLO_VERIF_CACHE") or os.path.join(M.VERIF, ".cache")
    src = nd
    if repo != "/repo":
        src = os.path.join(cache, "extsrc", "cpulist_emit_replay")
        shutil.rmtree(src, ignore_errors=True)
        shutil.copytree(nd, src, ignore=shutil.ignore_patterns("target", "Cargo.lock"))
        ct = os.path.join(src, "Cargo.toml")
        txt = open(ct).read().replace("/repo/packages/", repo.rstrip("/") + "/packages/")
        with open(ct, "w") as f:
            f.write(txt)
    tdir = os.path.join(cache, "native", "cpulist_emit_replay")
    env = dict(os.environ)
    env["CARGO_NET_OFFLINE"] = "true"
    env.pop("RUSTFLAGS", None)
    shutil.copyfile(os.path.join(repo, "Cargo.lock"), os.path.join(src, "Cargo.lock"))
    if any(asg.get(k) for k in asg if k.endswith("_is_err")):
        return dict(skipped="assignment with a failing number parse: no text to build")
    start = asg.get("parse_start_text_value", 0)
    has_stride = "parse_stride_text_value" in asg
    end = asg.get("parse_end_text_value" if has_stride else "parse_rest_text_value", 0)
    stride = asg.get("parse_stride_text_value", 1)
    text = "%d-%d" % (start, end) + (":%d" % stride if has_stride else "")
    if stride == 0 or start > end:
        exp = ["err"]
    else:
        if (end - start) // stride > 100000:
            return dict(skipped="progression too long to replay: %s" % text)
        exp = [str(start), str(end), str(stride)]
    res = {}
    for prof in ("dev", "release"):
        b = subprocess.run(["cargo", "build", "-q", "--offline", "--target-dir", tdir] + (["--release"] if prof == "release" else []),
                           cwd=src, env=env, capture_output=True, text=True, timeout=1200)
        if b.returncode != 0:
            res[prof] = dict(error="build failed: " + b.stderr[-300:])
            continue
        exe = os.path.join(tdir, "debug" if prof == "dev" else "release", "folo_verif_cpulist_emit_replay")
        r = subprocess.run([exe, "parse", text] + exp, capture_output=True, text=True, timeout=120)
        res[prof] = dict(rc=r.returncode, stderr=r.stderr[-300:], args=["parse", text] + exp)
    return res


def main():
    t0 = time.time()
    out = dict(check="cpulist_parse_range", queries=[], witness=[], functions=[], noverdict=[], violations=[],
               outside=["str::parse::<u32> / str::split_once (opaque: arbitrary result per distinct string)", "RangeInclusive / step_by / collect (std), the split(',') and sorted().dedup() driver of parse, error message contents"],
               assumptions=["mirsym: Result::map_err keeps Ok values; Try::branch / FromResidual for Result by their documented semantics; one arbitrary parse result per distinct string"])
    if len(sys.argv) > 2 and sys.argv[1] == "--replay":
        rp = replay(json.loads(sys.argv[2]), M.REPO)
        out["replay"] = rp
        out["reproduced"] = any(isinstance(x, dict) and x.get("rc") not in (0, None) for x in rp.values()) if "skipped" not in rp else False
        print(json.dumps(out))
        return
    try:
        funcs = M.parse(M.dump("cpulist"))
    except RuntimeError as e:
        out["noverdict"].append("mir dump: %s" % e)
        print(json.dumps(out))
        return
    try:
        fn = funcs.get("parse_range")
        if fn is None:
            raise S.Unsupported("parse_range not in the MIR dump")
        ex = S.SymExec(funcs, OPAQUE, {})
        env = {"_1": ("STRTOK", "start_text"), "_2": ("STRTOK", "rest_text")}
        paths = ex.run(fn, "bb0", env, stop=())
        seen = set()

        def parsed(t):
            return PARSED.get(t, (None, None))
        for pa in paths:
            kind = pa.outcome[0]
            if kind in ("PANIC", "UNREACHABLE"):
                r, m, s = check(pa.pc)
                out["queries"].append(dict(q="R1 parse_range: %s path infeasible" % kind.lower(), result=str(r), s=s))
                if r == z3.sat:
                    out["violations"].append(dict(label="parse_range can panic: %s" % (pa.outcome[1],), line=pa.outcome[-1], assignment={}, replay=dict(skipped="private function"), reproduced=False))
                continue
            res = pa.outcome[1]
            if not (isinstance(res, tuple) and res[0] == "ENUM" and isinstance(res[1], int)):
                raise S.Unsupported("parse_range result %r" % (res,))
            r0, _, _ = check(pa.pc)
            if r0 != z3.sat:
                continue
            ds, vs = parsed("start_text")
            stride_branch = [c for c in pa.pc if "has_stride_part" in str(c)]
            has_stride = z3.BitVec("has_stride_part", 8)
            # which strings this path parsed
            used = {e[1][0][1] for e in pa.events if e[0] == "parse"}
            all_ok = z3.And(*[PARSED[t][0] == 0 for t in used])
            if res[1] == 0:
                seen.add("ok")
                vec = res[2][0][0]
                if not (vec[0] == "VECOF" and vec[1][0] == "STEPBY"):
                    raise S.Unsupported("Ok payload %r" % (vec,))
                _, a, b, st, inclusive = vec[1]
                end_t = "end_text" if "end_text" in used else "rest_text"
                exp_end = PARSED[end_t][1]
                exp_stride = z3.ZeroExt(32, PARSED["stride_text"][1]) if "stride_text" in used else z3.BitVecVal(1, 64)
                # set semantics of the collected iterator at an arbitrary probe id x (whatever range type is used):
                # x is produced iff a <= x (<= | <) b and (x - a) is a multiple of the step
                x = z3.BitVec("probe_id", 32)
                st32 = z3.Extract(31, 0, st)
                produced = z3.And(z3.ULE(a, x), z3.ULE(x, b) if inclusive else z3.ULT(x, b), z3.URem(x - a, st32) == 0)
                wanted = z3.And(z3.ULE(vs, x), z3.ULE(x, exp_end), z3.URem(x - vs, z3.Extract(31, 0, exp_stride)) == 0)
                post = z3.And(all_ok, st != 0, z3.ULE(st, z3.BitVecVal(0xFFFFFFFF, 64)), exp_stride != 0, z3.ULE(vs, exp_end), produced == wanted,
                              (has_stride == 1) == z3.BoolVal("stride_text" in used))
                what = "R3 Ok path: the collected ids are exactly start, start+stride, .. <= end of the right texts (arbitrary probe id), stride != 0, start <= end"
            else:
                seen.add("err")
                stride_v = PARSED["stride_text"][1] if "stride_text" in used else z3.BitVecVal(1, 32)
                end_t = "end_text" if "end_text" in used else "rest_text"
                bad_numbers = z3.Not(all_ok)
                if end_t in used:
                    post = z3.Or(bad_numbers, stride_v == 0, z3.UGT(vs, PARSED[end_t][1]))
                else:
                    post = bad_numbers
                what = "R2 Err path: a number failed to parse, or stride == 0, or start > end"
            small = [z3.ULE(PARSED[t][1], 64) for t in used]           # replay-friendly assignments first
            end_t2 = "end_text" if "end_text" in used else "rest_text"
            short = [z3.ULE(PARSED[end_t2][1] - vs, 64), z3.ULE(vs, PARSED[end_t2][1])] if end_t2 in used else []
            r, m, s = check(pa.pc + [z3.Not(post), all_ok] + small)
            if r == z3.unsat and short:
                r, m, s2 = check(pa.pc + [z3.Not(post), all_ok] + short)      # a short progression anywhere in the u32 range
                s += s2
            if r == z3.unsat:
                r, m, s2 = check(pa.pc + [z3.Not(post)])
                s += s2
            out["queries"].append(dict(q=what, result=str(r), s=s))
            if r == z3.sat:
                asg = {str(d): m.eval(d, True).as_long() for d in [x for t in used for x in PARSED[t]]}
                out["violations"].append(dict(label="parse_range: %s fails" % what, line=None, assignment=asg,
                                              replay=dict(skipped="private function with abstracted strings"), reproduced=False))
            elif r != z3.unsat:
                out["noverdict"].append("solver %s" % r)
        # completeness of R2: there is no Ok path whose condition allows stride == 0 or start > end (covered by R3),
        # and every all-numbers-parse, stride != 0, start <= end input reaches an Ok path:
        ok_pcs = [z3.And(*pa.pc) for pa in paths if pa.outcome[0] == "RETURN" and isinstance(pa.outcome[1], tuple) and pa.outcome[1][1] == 0]
        ds, vs = PARSED["start_text"]
        for with_stride in (0, 1):
            end_t = "end_text" if with_stride else "rest_text"
            good = [ds == 0, PARSED[end_t][0] == 0, z3.ULE(vs, PARSED[end_t][1]), z3.BitVec("has_stride_part", 8) == with_stride]
            if with_stride:
                good += [PARSED["stride_text"][0] == 0, PARSED["stride_text"][1] != 0]
            small = [z3.ULE(PARSED[t][1], 64) for t in (["start_text", end_t] + (["stride_text"] if with_stride else []))]
            r, m, s = check(good + small + [z3.Not(z3.Or(*ok_pcs))])
            if r == z3.unsat:
                r, m, s2 = check(good + [z3.Not(z3.Or(*ok_pcs))])
                s += s2
            out["queries"].append(dict(q="R2 completeness: well-formed range (%s stride part) always returns Ok" % ("with" if with_stride else "without"), result=str(r), s=s))
            if r == z3.sat:
                ts = ["start_text", end_t] + (["stride_text"] if with_stride else [])
                asg = {str(d): m.eval(d, True).as_long() for t in ts for d in PARSED[t]}
                out["violations"].append(dict(label="parse_range rejects a well-formed range", line=None, assignment=asg, replay=dict(skipped="private function"), reproduced=False))
            elif r != z3.unsat:
                out["noverdict"].append("solver %s" % r)
        out["witness"].append(dict(q="reached %s" % sorted(seen), ok=seen == {"ok", "err"}))
        out["functions"].append("cpulist::parse_range (whole MIR, %d blocks, %d paths)" % (len(fn.blocks), len(paths)))
    except (S.Unsupported, KeyError) as e:
        out["noverdict"].append("unsupported: %s: %s" % (type(e).__name__, e))
    for w in out["witness"]:
        if not w["ok"]:
            out["noverdict"].append("witness failed: " + w["q"])
    # violations of this check cannot be replayed through a private function with abstract strings: they are
    # confirmed by running the public cpulist::parse on texts built from the assignment where one exists
    for v in out["violations"]:
        if v.get("assignment"):
            v["replay"] = replay(v["assignment"], M.REPO)
            rp = v["replay"]
            v["reproduced"] = any(isinstance(x, dict) and x.get("rc") not in (0, None) for x in rp.values()) if "skipped" not in rp else False
        else:
            v["reproduced"] = False
    out["wall_s"] = round(time.time() - t0, 2)
    out["symbolic_states"] = getattr(S.SymExec, "steps", 0)
    out["asserted_formulas"] = ASSERTED[0]
    print(json.dumps(out))


if __name__ == "__main__":
    main()
