"""C11, id-list codec, emit side: the range arithmetic of `cpulist::emit`, decided for every u32.

`emit` as a whole is out of Kani's reach (itertools `unique()` -> HashSet, pdqsort, VecDeque,
integer formatting; probes P11/P25). What the property rests on in it is loop-free u32 arithmetic:

  Q1  the grouping step (`emit::{closure#0}`, the fold_while body): from an arbitrary accumulator
      that satisfies the run invariant and an arbitrary next id greater than the run's last id
      (the ids reach it sorted and de-duplicated), the step does not panic and returns exactly the
      specified accumulator (extend the run iff the id is the successor, else close it);
  Q2  the emission of one group (the body of `for (start, len) in groups`, a block range of `emit`):
      for every (start, len) with len >= 1 and start+len-1 <= u32::MAX it reaches the loop head
      again without a panic;
  Q3  on every such path the formatted tokens denote exactly the ids start ..= start+len-1
      (a number / "a,b" / "a-b" per the cpulist syntax), for an arbitrary probe id x.

Each query is `pre AND path-condition AND NOT(post)`; unsat = holds for all 2^32-range values. A
satisfying assignment is replayed on the real crate (native/cpulist_emit_replay) before it is
reported. Assumed by contract (outside the claim): unique/sorted_unstable deliver ascending distinct
ids, fold_while/VecDeque drive the closure over them, Display for u32 and String::push* write what
they are given, `write!` to a String returns Ok."""
import codecs
import json
import os
import re
import subprocess
import sys
import time

import z3

sys.path.insert(0, os.path.dirname(os.path.dirname(os.path.abspath(__file__))))
from mirproto import mir as M          # noqa: E402
from mirsym import sym as S            # noqa: E402

OPAQUE = (
    (r"^String::is_empty$", "is_empty", "bool?"),
    (r"^String::push$", "push_char", "unit"),
    (r"^String::push_str$", "push_str", "unit"),
    (r"^<u32 as ToString>::to_string$", "string_of", "wrap"),
    (r"^<String as Deref>::deref$", "deref", "pass"),
    (r"Argument::<'_>::new_display::<u32>$", "display", "wrap"),
    (r"^Arguments::<'_>::new::<\d+, \d+>$", "arguments", "wrap"),
    (r"^<String as std::fmt::Write>::write_fmt$", "write_fmt", "ok"),
)
U32MAX = (1 << 32) - 1


def w33(x):
    return z3.ZeroExt(1, x)


ASSERTED = [0]


def check(conds, timeout_s=120):
    ASSERTED[0] += len(conds)
    s = z3.Solver()
    s.set("timeout", timeout_s * 1000)
    s.add(*conds)
    t0 = time.time()
    r = s.check()
    return r, (s.model() if r == z3.sat else None), round(time.time() - t0, 3)


def decode_template(val):
    """fmt::Arguments template bytes -> list of ('lit', text) | ('arg',) ; only the forms documented in
    core::fmt (short literal piece n<0x80, default placeholder 0xC0, terminator 0)."""
    assert val[0] == "BYTES", val
    raw = codecs.decode(val[1][1:-1], "unicode_escape").encode("latin-1")
    out, i = [], 0
    while i < len(raw):
        n = raw[i]
        if n == 0:
            if i != len(raw) - 1:
                raise S.Unsupported("format template: bytes after terminator")
            return out
        if n < 0x80:
            out.append(("lit", raw[i + 1:i + 1 + n].decode()))
            i += 1 + n
        elif n == 0xC0:
            out.append(("arg",))
            i += 1
        else:
            raise S.Unsupported("format template byte 0x%02x" % n)
    raise S.Unsupported("format template without terminator")


def tokens_of(path):
    """events of a path -> token list: ('sep',) | ('num', bv) | ('lit', text)"""
    toks = []
    for ev in path.events:
        tag, args = ev[0], ev[1]
        if tag == "push_char":
            if args[1] != ("CHAR", ","):
                raise S.Unsupported("push of %r" % (args[1],))
            toks.append(("sep",))
        elif tag == "push_str":
            v = args[1]
            if not (isinstance(v, tuple) and v[0] == "STRING_OF" and S.is_bv(v[1])):
                raise S.Unsupported("push_str of %r" % (v,))
            toks.append(("num", v[1]))
        elif tag == "write_fmt":
            a = args[1]
            if not (isinstance(a, tuple) and a[0] == "ARGUMENTS"):
                raise S.Unsupported("write_fmt of %r" % (a,))
            tmpl = decode_template(a[1])
            arr = a[2]
            if not (isinstance(arr, tuple) and arr[0] == "ARR"):
                raise S.Unsupported("format arguments %r" % (arr,))
            k = 0
            for piece in tmpl:
                if piece[0] == "lit":
                    toks.append(piece)
                else:
                    d = arr[1][k]
                    k += 1
                    if not (isinstance(d, tuple) and d[0] == "DISPLAY" and S.is_bv(d[1])):
                        raise S.Unsupported("format argument %r" % (d,))
                    toks.append(("num", d[1]))
            if k != len(arr[1]):
                raise S.Unsupported("unused format arguments")
    return toks


def member(x, toks):
    """x is denoted by the token list of one group (cpulist syntax: n | a,b | a-b)"""
    shape = [t[0] if t[0] != "lit" else t[1] for t in toks]
    if shape and shape[0] == "sep":
        shape, toks = shape[1:], toks[1:]
    if shape == ["num"]:
        return x == toks[0][1], "n"
    if shape == ["num", ",", "num"]:
        return z3.Or(x == toks[0][1], x == toks[2][1]), "a,b"
    if shape == ["num", "-", "num"]:
        return z3.And(z3.ULE(toks[0][1], x), z3.ULE(x, toks[2][1])), "a-b"
    raise S.Unsupported("emitted token shape %r" % (shape,))


def load():
    path = M.dump("cpulist")
    funcs = M.parse(path)
    consts = {k: f for k, f in funcs.items() if "{constant#" in k}
    return path, funcs, consts


def q1_closure(funcs, consts, out):
    fn = funcs.get("emit::{closure#0}")
    if fn is None:
        raise S.Unsupported("emit::{closure#0} not in the MIR dump")
    ex = S.SymExec(funcs, OPAQUE, consts)
    d = z3.BitVec("acc_disc", 8)
    start, ln, p = z3.BitVec("start", 32), z3.BitVec("len", 32), z3.BitVec("p", 32)
    env = {"_1": ("OPAQUE", "closure env"), "_2": S.enum(d, {1: [("TUPLE", [start, ln])]}), "_3": ("REFVAL", p)}
    last33 = w33(start) + w33(ln) - 1
    # stated bound: not the complete set of all 2^32 ids (the only input whose run length overflows u32)
    pre = [z3.Or(d == 0, d == 1),
           z3.Implies(d == 1, z3.And(ln != 0, z3.ULE(last33, z3.BitVecVal(U32MAX, 33)), z3.UGT(w33(p), last33))),
           z3.Not(z3.And(d == 1, start == 0, ln == z3.BitVecVal(U32MAX, 32)))]
    paths = ex.run(fn, "bb0", env, stop=())
    viol = []
    n_ret = 0
    for pa in paths:
        kind = pa.outcome[0]
        if kind in ("PANIC", "UNREACHABLE"):
            r, m, s = check(pre + pa.pc)
            out["queries"].append(dict(q="Q1 closure: %s path infeasible (%s)" % (kind.lower(), pa.outcome[1] if kind == "PANIC" else ""), result=str(r), s=s))
            if r == z3.sat:
                viol.append(dict(label="grouping step panics: %s" % (pa.outcome[1],), line=pa.outcome[-1],
                                 assignment=dict(acc=int(m.eval(d, True).as_long()), start=m.eval(start, True).as_long(), len=m.eval(ln, True).as_long(), p=m.eval(p, True).as_long())))
            elif r != z3.unsat:
                out["noverdict"].append("Q1 panic path: solver %s" % r)
            continue
        if kind != "RETURN":
            raise S.Unsupported("closure path ends with %r" % (pa.outcome,))
        n_ret += 1
        v = pa.outcome[1]
        if not (isinstance(v, tuple) and v[0] == "ENUM" and isinstance(v[1], int)):
            raise S.Unsupported("closure result %r" % (v,))
        fw = v[1]                      # 0 Continue, 1 Done
        inner = v[2][fw][0]
        if not (inner[0] == "ENUM" and inner[1] == 1):
            raise S.Unsupported("closure result payload %r" % (inner,))
        s2, l2 = inner[2][1][0][1]
        exp = z3.If(d == 0, z3.And(fw == 0, s2 == p, l2 == 1),
                    z3.If(w33(p) == last33 + 1, z3.And(fw == 0, s2 == start, l2 == ln + 1),
                          z3.And(fw == 1, s2 == start, l2 == ln)))
        # result keeps the run invariant
        inv = z3.And(l2 != 0, z3.ULE(w33(s2) + w33(l2) - 1, z3.BitVecVal(U32MAX, 33)))
        r, m, s = check(pre + pa.pc + [z3.Not(z3.And(exp, inv))])
        out["queries"].append(dict(q="Q1 closure: returned accumulator = specified step, run invariant kept", result=str(r), s=s))
        if r == z3.sat:
            viol.append(dict(label="grouping step returns a wrong accumulator", line=None,
                             assignment=dict(acc=int(m.eval(d, True).as_long()), start=m.eval(start, True).as_long(), len=m.eval(ln, True).as_long(), p=m.eval(p, True).as_long())))
        elif r != z3.unsat:
            out["noverdict"].append("Q1 return path: solver %s" % r)
    # vacuity: both a Continue and a Done result are reachable under the precondition
    out["witness"].append(dict(q="Q1 closure has %d returning paths" % n_ret, ok=n_ret >= 3))
    out["functions"].append("cpulist::emit::{closure#0} (MIR, %d blocks, %d paths)" % (len(fn.blocks), len(paths)))
    return viol


def find_emit_fragment(fn):
    """-> (loop head bb, body entry bb, local holding Some((start, len)))"""
    for name, blk in fn.blocks.items():
        if blk.cleanup or not blk.term:
            continue
        t = blk.term[0]
        m = re.match(r"^(_\d+) = <std::vec::IntoIter<\(u32, NonZero<u32>\)> as Iterator>::next\(.*\) -> \[return: (bb\d+),", t)
        if m:
            sw = fn.blocks[m.group(2)].term[0]
            ms = re.match(r"^switchInt\(.+?\) -> \[(.*)\];$", sw)
            arms = dict(x.split(": ") for x in ms.group(1).split(", "))
            return name, arms["1"], m.group(1)
    raise S.Unsupported("group loop of emit not found (no IntoIter<(u32, NonZero<u32>)>::next call)")


def q23_emission(funcs, consts, out):
    fn = funcs.get("emit")
    if fn is None:
        raise S.Unsupported("emit not in the MIR dump")
    head, entry, loc = find_emit_fragment(fn)
    ex = S.SymExec(funcs, OPAQUE, consts)
    start, ln, x = z3.BitVec("start", 32), z3.BitVec("len", 32), z3.BitVec("x", 32)
    env = {loc: S.some(("TUPLE", [start, ln]))}
    last33 = w33(start) + w33(ln) - 1
    pre = [ln != 0, z3.ULE(last33, z3.BitVecVal(U32MAX, 33))]
    paths = ex.run(fn, entry, env, stop=(head,))
    viol = []
    shapes = set()
    for pa in paths:
        kind = pa.outcome[0]
        if kind in ("PANIC", "UNREACHABLE"):
            # prefer a small run so that the replay is cheap; any run otherwise
            r, m, s = check(pre + pa.pc + [z3.ULE(ln, 64)])
            if r == z3.unsat:
                r, m, s2 = check(pre + pa.pc)
                s += s2
            out["queries"].append(dict(q="Q2 emission: %s path infeasible (%s)" % (kind.lower(), pa.outcome[1] if kind == "PANIC" else ""), result=str(r), s=s))
            if r == z3.sat:
                viol.append(dict(label="emit panics for a run of valid ids: %s" % (pa.outcome[1],), line=pa.outcome[-1],
                                 assignment=dict(start=m.eval(start, True).as_long(), len=m.eval(ln, True).as_long())))
            elif r != z3.unsat:
                out["noverdict"].append("Q2 panic path: solver %s" % r)
            continue
        if kind != "EXIT":
            raise S.Unsupported("emission path ends with %r" % (pa.outcome,))
        r, m, s = check(pre + pa.pc)
        if r == z3.unsat:
            continue            # infeasible combination of branches
        toks = tokens_of(pa)
        mem, shape = member(x, toks)
        shapes.add(shape)
        spec = z3.And(z3.ULE(start, x), z3.ULE(w33(x), last33))
        r, m, s = check(pre + pa.pc + [mem != spec])
        out["queries"].append(dict(q="Q3 emission (%s form): emitted tokens denote exactly start..=start+len-1 (arbitrary probe id)" % shape, result=str(r), s=s))
        if r == z3.sat:
            viol.append(dict(label="emitted group text denotes a different id set (%s form)" % shape, line=None,
                             assignment=dict(start=m.eval(start, True).as_long(), len=m.eval(ln, True).as_long(), x=m.eval(x, True).as_long())))
        elif r != z3.unsat:
            out["noverdict"].append("Q3: solver %s" % r)
        # the separator is pushed iff the output so far is not empty
        seps = [e for e in pa.events if e[0] == "push_char"]
        empties = [e for e in pa.events if e[0] == "is_empty"]
        if len(empties) != 1:
            raise S.Unsupported("emission path without exactly one is_empty test")
    out["witness"].append(dict(q="Q3 reached the forms %s" % sorted(shapes), ok=shapes == {"n", "a,b", "a-b"}))
    out["functions"].append("cpulist::emit, blocks %s..back to %s (body of `for (start, len) in groups`; MIR, %d paths)" % (entry, head, len(paths)))
    return viol


def h_fold_while(ex, path, vals, args):
    # arbitrary result of the fold: Continue(acc) | Done(acc), acc = None | Some((start, len))
    fw = z3.BitVec("fold_is_done", 8)
    d = z3.BitVec("fold_acc_is_some", 8)
    path.pc += [z3.Or(fw == 0, fw == 1), z3.Or(d == 0, d == 1)]
    acc = S.enum(d, {1: [("TUPLE", [z3.BitVec("group_start", 32), z3.BitVec("group_len", 32)])]})
    return S.enum(fw, {0: [acc], 1: [acc]})


def h_into_inner(ex, path, vals, args):
    v = args[0]
    if not (isinstance(v, tuple) and v[0] == "ENUM"):
        raise S.Unsupported("into_inner on %r" % (v,))
    return v[2][0][0]            # both variants carry the same accumulator


def h_range_next(ex, path, vals, args):
    r = vals[0]
    if not (isinstance(r, tuple) and r[0] == "REF"):
        raise S.Unsupported("Range::next on %r" % (r,))
    rng = path.env.get(r[1])
    if not (isinstance(rng, tuple) and rng[0] == "TUPLE" and len(rng[1]) == 2):
        raise S.Unsupported("Range::next on %r" % (rng,))
    cur, end = rng[1]
    more = z3.ULT(cur, end)
    path.env[r[1]] = ("TUPLE", [z3.If(more, cur + 1, cur), end])
    return S.enum(z3.If(more, z3.BitVecVal(1, 8), z3.BitVecVal(0, 8)), {1: [cur]})


def h_pop_front(ex, path, vals, args):
    n = path.env["@deque_len"]
    path.env["@deque_len"] = z3.If(n == 0, n, n - 1)
    path.env["@pops"] = path.env.get("@pops", 0) + 1
    return S.enum(z3.If(n == 0, z3.BitVecVal(0, 8), z3.BitVecVal(1, 8)), {1: [("OPAQUE", "id")]})


GROUP_OPAQUE = (
    (r"^VecDeque::<u32>::iter$", "deque_iter", "unit"),
    (r"as Itertools>::fold_while::<", "fold_while", h_fold_while),
    (r"^FoldWhile::<Option<\(u32, NonZero<u32>\)>>::into_inner$", "into_inner", h_into_inner),
    (r"^Vec::<\(u32, NonZero<u32>\)>::push$", "push_group", "unit"),
    (r"^<std::ops::Range<u32> as IntoIterator>::into_iter$", "into_iter", "pass"),
    (r"^<std::ops::Range<u32> as Iterator>::next$", "range_next", h_range_next),
    (r"^VecDeque::<u32>::pop_front$", "pop_front", h_pop_front),
)


def q4_group_consumption(funcs, consts, out):
    """the outer loop body of emit: the group found by the fold is recorded as it is, and exactly `len` ids
    are then removed from the front of the remaining ids (two fragments: fold..range construction, and one
    inductive step of the `for _ in 0..len` pop loop from an arbitrary iterator state)."""
    fn = funcs.get("emit")
    b_fold = None
    b_next = None
    for n, b in fn.blocks.items():
        if b.cleanup or not b.term:
            continue
        if "as Itertools>::fold_while::<" in b.term[0]:
            b_fold = n
        if "<std::ops::Range<u32> as Iterator>::next(" in b.term[0]:
            b_next = n
    if b_fold is None or b_next is None:
        raise S.Unsupported("emit: fold_while / pop loop not found")
    import re as _re
    t = fn.blocks[b_next].term[0]
    ref_local = _re.search(r"next\((?:copy|move) (_\d+)\)", t).group(1)
    it_local = None
    for (text, _) in fn.blocks[b_next].stmts:
        mm = _re.match(r"^%s = &mut (_\d+);$" % _re.escape(ref_local), text)
        if mm:
            it_local = mm.group(1)
    if it_local is None:
        raise S.Unsupported("Q4: iterator local of the pop loop not found")
    # (a) from the fold call to the head of the pop loop
    ex = S.SymExec(funcs, GROUP_OPAQUE, consts)
    paths = ex.run(fn, b_fold, {"@deque_len": z3.BitVec("remaining_len", 64)}, stop=(b_next,))
    viol = []
    gs, gl = z3.BitVec("group_start", 32), z3.BitVec("group_len", 32)
    reached = 0
    for pa in paths:
        if pa.outcome[0] == "PANIC":
            # `expect("this must be Some if we still have remaining items")`: feasible only if the fold returned None,
            # which fold_while cannot do on a non-empty deque (the closure returns Some on the first item: Q1)
            r, m, s = check(pa.pc + [z3.BitVec("fold_acc_is_some", 8) == 1])
            out["queries"].append(dict(q="Q4 emit loop body: panic only if the fold returned None (excluded by Q1 on a non-empty deque)", result=str(r), s=s))
            if r != z3.unsat:
                out["noverdict"].append("Q4: panic path feasible with a Some accumulator: %s" % (pa.outcome,))
            continue
        if pa.outcome[0] != "EXIT":
            raise S.Unsupported("Q4 fragment (a) ends with %r" % (pa.outcome,))
        reached += 1
        pushes = [e for e in pa.events if e[0] == "push_group"]
        rng = pa.env.get(it_local)
        if len(pushes) != 1 or not (isinstance(rng, tuple) and rng[0] == "TUPLE" and len(rng[1]) == 2):
            raise S.Unsupported("Q4: expected one recorded group and the removal range (%d, %r)" % (len(pushes), rng))
        pushed = pushes[0][1][1]
        cur, end = rng[1]
        post = z3.And(pushed[1][0] == gs, pushed[1][1] == gl, cur == 0, end == gl)
        r, m, s = check(pa.pc + [z3.Not(post)])
        out["queries"].append(dict(q="Q4 emit loop body: the fold's (start, len) is the recorded group and the removal loop runs over 0..len", result=str(r), s=s))
        if r == z3.sat:
            viol.append(dict(label="emit records a different group than the fold found, or removes a different number of ids", line=None,
                             assignment=dict(start=0, len=3, extra=[5, 6, 9, 10, 11])))
        elif r != z3.unsat:
            out["noverdict"].append("Q4a: solver %s" % r)
    # (b) one step of the pop loop from an arbitrary iterator state
    ex = S.SymExec(funcs, GROUP_OPAQUE, consts)
    cur0, end0, d0 = z3.BitVec("iter_cur", 32), z3.BitVec("iter_end", 32), z3.BitVec("remaining_len", 64)
    ret_bb = _re.search(r"-> \[return: (bb\d+)", t).group(1)
    msw = _re.match(r"^switchInt\(.+?\) -> \[(.*)\];$", fn.blocks[ret_bb].term[0])
    arms = dict(x.split(": ") for x in msw.group(1).split(", "))
    b_after = arms["0"]                     # Range::next() == None: the removal loop is left
    paths2 = ex.run(fn, b_next, {it_local: ("TUPLE", [cur0, end0]), "@deque_len": d0}, stop=(b_next, b_after))
    steps = set()
    for pa in paths2:
        if pa.outcome[0] in ("PANIC", "UNREACHABLE"):
            r, m, s = check(pa.pc)
            out["queries"].append(dict(q="Q4 pop loop step: %s path infeasible" % pa.outcome[0].lower(), result=str(r), s=s))
            if r != z3.unsat:
                out["noverdict"].append("Q4b: %s" % (pa.outcome,))
            continue
        pops = pa.env.get("@pops", 0)
        if pa.outcome[0] == "EXIT" and pa.outcome[1] == b_next:
            steps.add("step")
            itv = pa.env[it_local][1]
            post = z3.And(z3.ULT(cur0, end0), itv[0] == cur0 + 1, itv[1] == end0, z3.BoolVal(pops == 1),
                          pa.env["@deque_len"] == z3.If(d0 == 0, d0, d0 - 1))
            what = "one iteration: only while cur < end, advances the counter by one and removes exactly one id"
            r, m, s = check(pa.pc + [z3.Not(post)])
            out["queries"].append(dict(q="Q4 pop loop step: " + what, result=str(r), s=s))
            if r == z3.sat:
                viol.append(dict(label="emit's removal loop: %s fails" % what, line=None, assignment=dict(start=0, len=3, extra=[5, 6, 9, 10, 11])))
            elif r != z3.unsat:
                out["noverdict"].append("Q4b: solver %s" % r)
        else:
            steps.add("exit")
            post = z3.And(z3.UGE(cur0, end0), z3.BoolVal(pops == 0), pa.env["@deque_len"] == d0)
            r, m, s = check(pa.pc + [z3.Not(post)])
            out["queries"].append(dict(q="Q4 pop loop step: the loop is left only when cur >= end, removing nothing on the way out", result=str(r), s=s))
            if r == z3.sat:
                viol.append(dict(label="emit's removal loop leaves early or removes an id while leaving", line=None, assignment=dict(start=0, len=3, extra=[5, 6, 9, 10, 11])))
            elif r != z3.unsat:
                out["noverdict"].append("Q4b: solver %s" % r)
    out["witness"].append(dict(q="Q4 reached fold->loop paths: %d; pop loop outcomes %s" % (reached, sorted(steps)), ok=reached >= 1 and steps == {"step", "exit"}))
    out["functions"].append("cpulist::emit, blocks %s..%s (group found -> removal loop) and one step of the removal loop at %s (MIR)" % (b_fold, b_next, b_next))
    return viol


def replay(assign, repo):
    """native replay of an assignment with start/len: run of ids through the public API"""
    nd = os.path.join(M.VERIF, "native", "cpulist_emit_replay")
    cache = os.environ.get("FOLO_VERIF_CACHE") or os.path.join(M.VERIF, ".cache")
    src = nd
    if repo != "/repo":
        src = os.path.join(cache, "extsrc", "cpulist_emit_replay")
        import shutil
        shutil.rmtree(src, ignore_errors=True)
        shutil.copytree(nd, src, ignore=shutil.ignore_patterns("target", "Cargo.lock"))
        ct = os.path.join(src, "Cargo.toml")
        txt = open(ct).read().replace("/repo/packages/", repo.rstrip("/") + "/packages/")
        with open(ct, "w") as f:
            f.write(txt)
    tdir = os.path.join(cache, "native", "cpulist_emit_replay")
    env = dict(os.environ)
    env["CARGO_NET_OFFLINE"] = "true"
    env.pop("RUSTFLAGS", None)
    import shutil
    shutil.copyfile(os.path.join(repo, "Cargo.lock"), os.path.join(src, "Cargo.lock"))
    res = {}
    start, ln = assign["start"], assign["len"]
    if ln > 4096:
        return dict(skipped="run of %d ids is too long to replay natively" % ln)
    extra = [str(x) for x in assign.get("extra", [])]
    if "p" in assign and "acc" in assign:
        # grouping-step assignment: ids = the run plus the next id p
        extra = [str(assign["p"])]
        if assign["acc"] == 0:
            start, ln = assign["p"], 1
            extra = []
    for prof in ("dev", "release"):
        b = subprocess.run(["cargo", "build", "-q", "--offline", "--target-dir", tdir] + (["--release"] if prof == "release" else []),
                           cwd=src, env=env, capture_output=True, text=True, timeout=1200)
        if b.returncode != 0:
            res[prof] = dict(error="build failed: " + b.stderr[-300:])
            continue
        exe = os.path.join(tdir, "debug" if prof == "dev" else "release", "folo_verif_cpulist_emit_replay")
        r = subprocess.run([exe, str(start), str(ln)] + extra, capture_output=True, text=True, timeout=120)
        res[prof] = dict(rc=r.returncode, stderr=r.stderr[-300:], stdout=r.stdout[-200:])
    return res


OUTSIDE = [
    "the one id set that contains all 2^32 values (its run length is not representable in emit's NonZero<u32>; it needs >= 16 GiB of ids)",
    "unique()/sorted_unstable()/VecDeque/fold_while driver (assumed: the closure sees the distinct ids in ascending order)",
    "Display for u32, String::push/push_str/write_fmt (assumed to append what they are given; write! to a String returns Ok)",
    "cpulist::parse (std str::parse / split machinery: no verdict with Kani, probes P11/P25)",
]
ASSUMPTIONS = [
    "mirsym: core::num checked_add/checked_sub, NonZero::get/new/checked_add, Option/Result::expect are modelled by their documented semantics over bit-vectors",
    "mirsym: fmt::Arguments template bytes decoded per core::fmt's documented encoding (short literal piece, default placeholder, terminator); other forms abort",
]


def main():
    t0 = time.time()
    out = dict(check="cpulist_emit", queries=[], witness=[], functions=[], noverdict=[], violations=[], outside=OUTSIDE, assumptions=ASSUMPTIONS)
    if len(sys.argv) > 2 and sys.argv[1] == "--replay":
        a = json.loads(sys.argv[2])
        rp = replay(a, M.REPO)
        out["replay"] = rp
        out["reproduced"] = any(isinstance(x, dict) and x.get("rc") not in (0, None) for x in rp.values()) if "skipped" not in rp else False
        print(json.dumps(out))
        return
    try:
        path, funcs, consts = load()
        out["mir"] = path
    except RuntimeError as e:
        out["noverdict"].append("mir dump: %s" % e)
        print(json.dumps(out))
        return
    viol = []
    for q in (q1_closure, q23_emission, q4_group_consumption):
        try:
            viol += q(funcs, consts, out)
        except S.Unsupported as e:
            out["noverdict"].append("%s unsupported: %s" % (q.__name__, e))
    for w in out["witness"]:
        if not w["ok"]:
            out["noverdict"].append("vacuity witness failed: " + w["q"])
    for v in viol:
        v["replay"] = replay(v["assignment"], M.REPO)
        rp = v["replay"]
        v["reproduced"] = any(isinstance(x, dict) and x.get("rc") not in (0, None) for x in rp.values()) if "skipped" not in rp else False
        out["violations"].append(v)
    out["wall_s"] = round(time.time() - t0, 2)
    out["symbolic_states"] = getattr(S.SymExec, "steps", 0)
    out["asserted_formulas"] = ASSERTED[0]
    print(json.dumps(out))


if __name__ == "__main__":
    main()
