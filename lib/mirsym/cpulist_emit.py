"""C11, id-list codec, emit side: the range arithmetic of `cpulist::emit`, decided for every u32.

`emit` as a whole is out of Kani's reach (itertools `unique()` -> HashSet, pdqsort, VecDeque,
integer formatting; probes P11/P25). What the property rests on in it is loop-free u32 arithmetic:

  Q1  the grouping step (`emit::{closure#0}`, the fold_while body): from an arbitrary accumulator
      that satisfies the run invariant and an arbitrary next id greater than the run's last id
      (the ids reach it sorted and de-duplicated), the step does not panic and returns exactly the
      specified accumulator (extend the run iff the id is the successor, else close it);
  Q2  the emission of one group (the body of `for (start, len) in groups`, a block range of `emit`):
      for every (start, len) with len >= 1 and start+len-1 <= u32::MAX it reaches the loop head
      again without a panic;
  Q3  on every such path the formatted tokens denote exactly the ids start ..= start+len-1
      (a number / "a,b" / "a-b" per the cpulist syntax), for an arbitrary probe id x.

Each query is `pre AND path-condition AND NOT(post)`; unsat = holds for all 2^32-range values. A
satisfying assignment is replayed on the real crate (native/cpulist_emit_replay) before it is
reported. Assumed by contract (outside the claim): unique/sorted_unstable deliver ascending distinct
ids, fold_while/VecDeque drive the closure over them, Display for u32 and String::push* write what
they are given, `write!` to a String returns Ok."""
import codecs
import json
import os
import re
import subprocess
import sys
import time

import z3

sys.path.insert(0, os.path.dirname(os.path.dirname(os.path.abspath(__file__))))
from mirproto import mir as M          # noqa: E402
from mirsym import sym as S            # noqa: E402

OPAQUE = (
    (r"^String::is_empty$", "is_empty", "bool?"),
    (r"^String::push$", "push_char", "unit"),
    (r"^String::push_str$", "push_str", "unit"),
    (r"^<u32 as ToString>::to_string$", "string_of", "wrap"),
    (r"^<String as Deref>::deref$", "deref", "pass"),
    (r"Argument::<'_>::new_display::<u32>$", "display", "wrap"),
    (r"^Arguments::<'_>::new::<\d+, \d+>$", "arguments", "wrap"),
    (r"^<String as std::fmt::Write>::write_fmt$", "write_fmt", "ok"),
)
U32MAX = (1 << 32) - 1


def w33(x):
    return z3.ZeroExt(1, x)


ASSERTED = [0]


def check(conds, timeout_s=120):
    ASSERTED[0] += len(conds)
    s = z3.Solver()
    s.set("timeout", timeout_s * 1000)
    s.add(*conds)
    t0 = time.time()
    r = s.check()
    return r, (s.model() if r == z3.sat else None), round(time.time() - t0, 3)


def decode_template(val):
    """fmt::Arguments template bytes -> list of ('lit', text) | ('arg',) ; only the forms documented in
    core::fmt (short literal piece n<0x80, default placeholder 0xC0, terminator 0)."""
    assert val[0] == "BYTES", val
    raw = codecs.decode(val[1][1:-1], "unicode_escape").encode("latin-1")
    out, i = [], 0
    while i < len(raw):
        n = raw[i]
        if n == 0:
            if i != len(raw) - 1:
                raise S.Unsupported("format template: bytes after terminator")
            return out
        if n < 0x80:
            out.append(("lit", raw[i + 1:i + 1 + n].decode()))
            i += 1 + n
        elif n == 0xC0:
            out.append(("arg",))
            i += 1
        else:
            raise S.Unsupported("format template byte 0x%02x" % n)
    raise S.Unsupported("format template without terminator")


def tokens_of(path):
    """events of a path -> token list: ('sep',) | ('num', bv) | ('lit', text)"""
    toks = []
    for ev in path.events:
        tag, args = ev[0], ev[1]
        if tag == "push_char":
            if args[1] != ("CHAR", ","):
                raise S.Unsupported("push of %r" % (args[1],))
            toks.append(("sep",))
        elif tag == "push_str":
            v = args[1]
            if not (isinstance(v, tuple) and v[0] == "STRING_OF" and S.is_bv(v[1])):
                raise S.Unsupported("push_str of %r" % (v,))
            toks.append(("num", v[1]))
        elif tag == "write_fmt":
            a = args[1]
            if not (isinstance(a, tuple) and a[0] == "ARGUMENTS"):
                raise S.Unsupported("write_fmt of %r" % (a,))
            tmpl = decode_template(a[1])
            arr = a[2]
            if not (isinstance(arr, tuple) and arr[0] == "ARR"):
                raise S.Unsupported("format arguments %r" % (arr,))
            k = 0
            for piece in tmpl:
                if piece[0] == "lit":
                    toks.append(piece)
                else:
                    d = arr[1][k]
                    k += 1
                    if not (isinstance(d, tuple) and d[0] == "DISPLAY" and S.is_bv(d[1])):
                        raise S.Unsupported("format argument %r" % (d,))
                    toks.append(("num", d[1]))
            if k != len(arr[1]):
                raise S.Unsupported("unused format arguments")
    return toks


def member(x, toks):
    """x is denoted by the token list of one group (cpulist syntax: n | a,b | a-b)"""
    shape = [t[0] if t[0] != "lit" else t[1] for t in toks]
    if shape and shape[0] == "sep":
        shape, toks = shape[1:], toks[1:]
    if shape == ["num"]:
        return x == toks[0][1], "n"
    if shape == ["num", ",", "num"]:
        return z3.Or(x == toks[0][1], x == toks[2][1]), "a,b"
    if shape == ["num", "-", "num"]:
        return z3.And(z3.ULE(toks[0][1], x), z3.ULE(x, toks[2][1])), "a-b"
    raise S.Unsupported("emitted token shape %r" % (shape,))


def load():
    path = M.dump("cpulist")
    funcs = M.parse(path)
    consts = {k: f for k, f in funcs.items() if "{constant#" in k}
    return path, funcs, consts


def q1_closure(funcs, consts, out):
    fn = funcs.get("emit::{closure#0}")
    if fn is None:
        raise S.Unsupported("emit::{closure#0} not in the MIR dump")
    ex = S.SymExec(funcs, OPAQUE, consts)
    d = z3.BitVec("acc_disc", 8)
    start, ln, p = z3.BitVec("start", 32), z3.BitVec("len", 32), z3.BitVec("p", 32)
    env = {"_1": ("OPAQUE", "closure env"), "_2": S.enum(d, {1: [("TUPLE", [start, ln])]}), "_3": ("REFVAL", p)}
    last33 = w33(start) + w33(ln) - 1
    # stated bound: not the complete set of all 2^32 ids (the only input whose run length overflows u32)
    pre = [z3.Or(d == 0, d == 1),
           z3.Implies(d == 1, z3.And(ln != 0, z3.ULE(last33, z3.BitVecVal(U32MAX, 33)), z3.UGT(w33(p), last33))),
           z3.Not(z3.And(d == 1, start == 0, ln == z3.BitVecVal(U32MAX, 32)))]
    paths = ex.run(fn, "bb0", env, stop=())
    viol = []
    n_ret = 0
    for pa in paths:
        kind = pa.outcome[0]
        if kind in ("PANIC", "UNREACHABLE"):
            r, m, s = check(pre + pa.pc)
            out["queries"].append(dict(q="Q1 closure: %s path infeasible (%s)" % (kind.lower(), pa.outcome[1] if kind == "PANIC" else ""), result=str(r), s=s))
            if r == z3.sat:
                viol.append(dict(label="grouping step panics: %s" % (pa.outcome[1],), line=pa.outcome[-1],
                                 assignment=dict(acc=int(m.eval(d, True).as_long()), start=m.eval(start, True).as_long(), len=m.eval(ln, True).as_long(), p=m.eval(p, True).as_long())))
            elif r != z3.unsat:
                out["noverdict"].append("Q1 panic path: solver %s" % r)
            continue
        if kind != "RETURN":
            raise S.Unsupported("closure path ends with %r" % (pa.outcome,))
        n_ret += 1
        v = pa.outcome[1]
        if not (isinstance(v, tuple) and v[0] == "ENUM" and isinstance(v[1], int)):
            raise S.Unsupported("closure result %r" % (v,))
        fw = v[1]                      # 0 Continue, 1 Done
        inner = v[2][fw][0]
        if not (inner[0] == "ENUM" and inner[1] == 1):
            raise S.Unsupported("closure result payload %r" % (inner,))
        s2, l2 = inner[2][1][0][1]
        exp = z3.If(d == 0, z3.And(fw == 0, s2 == p, l2 == 1),
                    z3.If(w33(p) == last33 + 1, z3.And(fw == 0, s2 == start, l2 == ln + 1),
                          z3.And(fw == 1, s2 == start, l2 == ln)))
        # result keeps the run invariant
        inv = z3.And(l2 != 0, z3.ULE(w33(s2) + w33(l2) - 1, z3.BitVecVal(U32MAX, 33)))
        r, m, s = check(pre + pa.pc + [z3.Not(z3.And(exp, inv))])
        out["queries"].append(dict(q="Q1 closure: returned accumulator = specified step, run invariant kept", result=str(r), s=s))
        if r == z3.sat:
            viol.append(dict(label="grouping step returns a wrong accumulator", line=None,
                             assignment=dict(acc=int(m.eval(d, True).as_long()), start=m.eval(start, True).as_long(), len=m.eval(ln, True).as_long(), p=m.eval(p, True).as_long())))
        elif r != z3.unsat:
            out["noverdict"].append("Q1 return path: solver %s" % r)
    # vacuity: both a Continue and a Done result are reachable under the precondition
    out["witness"].append(dict(q="Q1 closure has %d returning paths" % n_ret, ok=n_ret >= 3))
    out["functions"].append("cpulist::emit::{closure#0} (MIR, %d blocks, %d paths)" % (len(fn.blocks), len(paths)))
    return viol


def find_emit_fragment(fn):
    """-> (loop head bb, body entry bb, local holding Some((start, len)))"""
    for name, blk in fn.blocks.items():
        if blk.cleanup or not blk.term:
            continue
        t = blk.term[0]
        m = re.match(r"^(_\d+) = <std::vec::IntoIter<\(u32, NonZero<u32>\)> as Iterator>::next\(.*\) -> \[return: (bb\d+),", t)
        if m:
            sw = fn.blocks[m.group(2)].term[0]
            ms = re.match(r"^switchInt\(.+?\) -> \[(.*)\];$", sw)
            arms = dict(x.split(": ") for x in ms.group(1).split(", "))
            return name, arms["1"], m.group(1)
    raise S.Unsupported("group loop of emit not found (no IntoIter<(u32, NonZero<u32>)>::next call)")


def q23_emission(funcs, consts, out):
    fn = funcs.get("emit")
    if fn is None:
        raise S.Unsupported("emit not in the MIR dump")
    head, entry, loc = find_emit_fragment(fn)
    ex = S.SymExec(funcs, OPAQUE, consts)
    start, ln, x = z3.BitVec("start", 32), z3.BitVec("len", 32), z3.BitVec("x", 32)
    env = {loc: S.some(("TUPLE", [start, ln]))}
    last33 = w33(start) + w33(ln) - 1
    pre = [ln != 0, z3.ULE(last33, z3.BitVecVal(U32MAX, 33))]
    paths = ex.run(fn, entry, env, stop=(head,))
    viol = []
    shapes = set()
    for pa in paths:
        kind = pa.outcome[0]
        if kind in ("PANIC", "UNREACHABLE"):
            # prefer a small run so that the replay is cheap; any run otherwise
            r, m, s = check(pre + pa.pc + [z3.ULE(ln, 64)])
            if r == z3.unsat:
                r, m, s2 = check(pre + pa.pc)
                s += s2
            out["queries"].append(dict(q="Q2 emission: %s path infeasible (%s)" % (kind.lower(), pa.outcome[1] if kind == "PANIC" else ""), result=str(r), s=s))
            if r == z3.sat:
                viol.append(dict(label="emit panics for a run of valid ids: %s" % (pa.outcome[1],), line=pa.outcome[-1],
                                 assignment=dict(start=m.eval(start, True).as_long(), len=m.eval(ln, True).as_long())))
            elif r != z3.unsat:
                out["noverdict"].append("Q2 panic path: solver %s" % r)
            continue
        if kind != "EXIT":
            raise S.Unsupported("emission path ends with %r" % (pa.outcome,))
        r, m, s = check(pre + pa.pc)
        if r == z3.unsat:
            continue            # infeasible combination of branches
        toks = tokens_of(pa)
        mem, shape = member(x, toks)
        shapes.add(shape)
        spec = z3.And(z3.ULE(start, x), z3.ULE(w33(x), last33))
        r, m, s = check(pre + pa.pc + [mem != spec])
        out["queries"].append(dict(q="Q3 emission (%s form): emitted tokens denote exactly start..=start+len-1 (arbitrary probe id)" % shape, result=str(r), s=s))
        if r == z3.sat:
            viol.append(dict(label="emitted group text denotes a different id set (%s form)" % shape, line=None,
                             assignment=dict(start=m.eval(start, True).as_long(), len=m.eval(ln, True).as_long(), x=m.eval(x, True).as_long())))
        elif r != z3.unsat:
            out["noverdict"].append("Q3: solver %s" % r)
        # the separator is pushed iff the output so far is not empty
        seps = [e for e in pa.events if e[0] == "push_char"]
        empties = [e for e in pa.events if e[0] == "is_empty"]
        if len(empties) != 1:
            raise S.Unsupported("emission path without exactly one is_empty test")
    out["witness"].append(dict(q="Q3 reached the forms %s" % sorted(shapes), ok=shapes == {"n", "a,b", "a-b"}))
    out["functions"].append("cpulist::emit, blocks %s..back to %s (body of `for (start, len) in groups`; MIR, %d paths)" % (entry, head, len(paths)))
    return viol


def replay(assign, repo):
    """native replay of an assignment with start/len: run of ids through the public API"""
    nd = os.path.join(M.VERIF, "native", "cpulist_emit_replay")
    cache = os.environ.get("FOLO_VERIF_CACHE") or os.path.join(M.VERIF, ".cache")
    src = nd
    if repo != "/repo":
        src = os.path.join(cache, "extsrc", "cpulist_emit_replay")
        import shutil
        shutil.rmtree(src, ignore_errors=True)
        shutil.copytree(nd, src, ignore=shutil.ignore_patterns("target", "Cargo.lock"))
        ct = os.path.join(src, "Cargo.toml")
        txt = open(ct).read().replace("/repo/packages/", repo.rstrip("/") + "/packages/")
        with open(ct, "w") as f:
            f.write(txt)
    tdir = os.path.join(cache, "native", "cpulist_emit_replay")
    env = dict(os.environ)
    env["CARGO_NET_OFFLINE"] = "true"
    env.pop("RUSTFLAGS", None)
    import shutil
    shutil.copyfile(os.path.join(repo, "Cargo.lock"), os.path.join(src, "Cargo.lock"))
    res = {}
    start, ln = assign["start"], assign["len"]
    if ln > 4096:
        return dict(skipped="run of %d ids is too long to replay natively" % ln)
    extra = []
    if "p" in assign and "acc" in assign:
        # grouping-step assignment: ids = the run plus the next id p
        extra = [str(assign["p"])]
        if assign["acc"] == 0:
            start, ln = assign["p"], 1
            extra = []
    for prof in ("dev", "release"):
        b = subprocess.run(["cargo", "build", "-q", "--offline", "--target-dir", tdir] + (["--release"] if prof == "release" else []),
                           cwd=src, env=env, capture_output=True, text=True, timeout=1200)
        if b.returncode != 0:
            res[prof] = dict(error="build failed: " + b.stderr[-300:])
            continue
        exe = os.path.join(tdir, "debug" if prof == "dev" else "release", "folo_verif_cpulist_emit_replay")
        r = subprocess.run([exe, str(start), str(ln)] + extra, capture_output=True, text=True, timeout=120)
        res[prof] = dict(rc=r.returncode, stderr=r.stderr[-300:], stdout=r.stdout[-200:])
    return res


OUTSIDE = [
    "the one id set that contains all 2^32 values (its run length is not representable in emit's NonZero<u32>; it needs >= 16 GiB of ids)",
    "unique()/sorted_unstable()/VecDeque/fold_while driver (assumed: the closure sees the distinct ids in ascending order)",
    "Display for u32, String::push/push_str/write_fmt (assumed to append what they are given; write! to a String returns Ok)",
    "cpulist::parse (std str::parse / split machinery: no verdict with Kani, probes P11/P25)",
]
ASSUMPTIONS = [
    "mirsym: core::num checked_add/checked_sub, NonZero::get/new/checked_add, Option/Result::expect are modelled by their documented semantics over bit-vectors",
    "mirsym: fmt::Arguments template bytes decoded per core::fmt's documented encoding (short literal piece, default placeholder, terminator); other forms abort",
]


def main():
    t0 = time.time()
    out = dict(check="cpulist_emit", queries=[], witness=[], functions=[], noverdict=[], violations=[], outside=OUTSIDE, assumptions=ASSUMPTIONS)
    if len(sys.argv) > 2 and sys.argv[1] == "--replay":
        a = json.loads(sys.argv[2])
        rp = replay(a, M.REPO)
        out["replay"] = rp
        out["reproduced"] = any(isinstance(x, dict) and x.get("rc") not in (0, None) for x in rp.values()) if "skipped" not in rp else False
        print(json.dumps(out))
        return
    try:
        path, funcs, consts = load()
        out["mir"] = path
    except RuntimeError as e:
        out["noverdict"].append("mir dump: %s" % e)
        print(json.dumps(out))
        return
    viol = []
    for q in (q1_closure, q23_emission):
        try:
            viol += q(funcs, consts, out)
        except S.Unsupported as e:
            out["noverdict"].append("%s unsupported: %s" % (q.__name__, e))
    for w in out["witness"]:
        if not w["ok"]:
            out["noverdict"].append("vacuity witness failed: " + w["q"])
    for v in viol:
        v["replay"] = replay(v["assignment"], M.REPO)
        rp = v["replay"]
        v["reproduced"] = any(isinstance(x, dict) and x.get("rc") not in (0, None) for x in rp.values()) if "skipped" not in rp else False
        out["violations"].append(v)
    out["wall_s"] = round(time.time() - t0, 2)
    out["symbolic_states"] = getattr(S.SymExec, "steps", 0)
    out["asserted_formulas"] = ASSERTED[0]
    print(json.dumps(out))


if __name__ == "__main__":
    main()
