"""Symbolic execution of loop-free integer MIR fragments into z3 (path enumeration, bit-vectors).

Used where Kani cannot reach a function as a whole (std containers, hashing, formatting around it) but
the part the property rests on is a loop-free integer kernel: a closure body, or a range of basic
blocks inside a larger function. Inputs are z3 bit-vector variables; every `switchInt` on a symbolic
value forks the path; calls are resolved through a table of *semantic* models of core integer /
Option methods (checked_add, expect, NonZero::get, ...) and a table of *opaque* callees whose only
effect is recorded as an event (formatting, String pushes). Anything else aborts (fail closed).

Values:  z3 BitVecRef / BoolRef | ("TUPLE", [v..]) | ("ENUM", disc, {variant_index: [payload..]})
         | ("REF", local) | ("STR", text) | ("BYTES", text) | ("ARR", [v..]) | ("OPAQUE", tag) | None
"""
import re

import z3


class Unsupported(Exception):
    pass


VARIANTS = {
    "Option": {"None": 0, "Some": 1},
    "Result": {"Ok": 0, "Err": 1},
    "FoldWhile": {"Continue": 0, "Done": 1},
}
VARIANT_BY_NAME = {"None": 0, "Some": 1, "Ok": 0, "Err": 1, "Continue": 0, "Done": 1, "Break": 1}
INT_WIDTH = {"u8": 8, "u16": 16, "u32": 32, "u64": 64, "usize": 64, "i8": 8, "i16": 16, "i32": 32, "i64": 64, "isize": 64}


def is_bv(v):
    return isinstance(v, z3.BitVecRef)


def is_bool(v):
    return isinstance(v, z3.BoolRef)


def enum(disc, payloads):
    return ("ENUM", disc, payloads)


def some(v):
    return enum(1, {1: [v]})


def none():
    return enum(0, {})


def split_top(s, sep=","):
    out, depth, cur = [], 0, ""
    i = 0
    instr = False
    while i < len(s):
        c = s[i]
        if not instr and c == "'" and i + 2 < len(s) and s[i + 2] == "'":     # char literal such as ','
            cur += s[i:i + 3]
            i += 3
            continue
        if c == '"' and (i == 0 or s[i - 1] != "\\"):
            instr = not instr
        if not instr:
            if c in "(<[{":
                depth += 1
            elif c in ")>]}":
                if not (c == ">" and i > 0 and s[i - 1] == "-"):
                    depth -= 1
        if c == sep and depth == 0 and not instr:
            out.append(cur)
            cur = ""
        else:
            cur += c
        i += 1
    if cur.strip():
        out.append(cur)
    return [x.strip() for x in out]


class Path:
    def __init__(self, env, pc, events, visited):
        self.env, self.pc, self.events, self.visited = env, pc, events, visited
        self.outcome = None      # ("EXIT", bb) | ("RETURN", value) | ("PANIC", message, line)

    def fork(self, cond):
        p = Path(dict(self.env), self.pc + [cond], list(self.events), dict(self.visited))
        return p


class SymExec:
    def __init__(self, funcs, opaque=(), consts=None, lenient=False):
        # lenient: callees without a model return an opaque token / fresh Boolean / Option with a fresh
        # discriminant (chosen from the destination's declared type) and are recorded as events
        # ("call", callee, args, result); used for path properties ("every path calls f before g"),
        # never for arithmetic post-conditions.
        self.lenient = lenient
        self.funcs = funcs
        self.opaque = tuple(opaque)          # (regex, tag, result kind): the call is recorded as event (tag, args, line)
        self.consts = consts or {}           # name -> Func of inline constants
        self.fresh = 0
        self.queries = 0
        SymExec.steps = getattr(SymExec, 'steps', 0)     # symbolic states (block executions) over all runs of the process

    # ----- places ---------------------------------------------------------------------------
    def parse_place(self, text):
        """-> (local, [projection..]) with projections ('deref',) | ('field', n) | ('variant', name)"""
        t = text.strip()
        m = re.match(r"^_\d+$", t)
        if m:
            return t, []
        if t.startswith("(*") and t.endswith(")"):
            l, pr = self.parse_place(t[2:-1])
            return l, pr + [("deref",)]
        if t.startswith("(") and t.endswith(")"):
            inner = t[1:-1]
            # "(base as Variant)"
            m = re.match(r"^(.+) as (\w+)$", inner)
            if m and self._balanced(m.group(1)):
                l, pr = self.parse_place(m.group(1))
                return l, pr + [("variant", m.group(2))]
            # "base.N: type"
            depth = 0
            for i, c in enumerate(inner):
                if c in "(<[{":
                    depth += 1
                elif c in ")>]}":
                    depth -= 1
                elif c == ":" and depth == 0 and inner[i:i + 2] == ": ":
                    left = inner[:i]
                    m = re.match(r"^(.+)\.(\d+)$", left)
                    if not m:
                        break
                    l, pr = self.parse_place(m.group(1))
                    return l, pr + [("field", int(m.group(2)))]
        raise Unsupported("place %r" % text)

    @staticmethod
    def _balanced(s):
        d = 0
        for c in s:
            if c in "(":
                d += 1
            elif c == ")":
                d -= 1
                if d < 0:
                    return False
        return d == 0

    def read_place(self, path, text):
        local, projs = self.parse_place(text)
        v = path.env.get(local)
        for pr in projs:
            v = self.project(path, v, pr, text)
        return v

    def project(self, path, v, pr, text):
        if pr[0] == "deref":
            if isinstance(v, tuple) and v and v[0] == "REF":
                return path.env.get(v[1])
            if isinstance(v, tuple) and v and v[0] == "REFVAL":
                return v[1]
            raise Unsupported("deref of %r in %s" % (v, text))
        if self.lenient and isinstance(v, tuple) and v and v[0] == "OPAQUE" and pr[0] in ("field", "variant"):
            return ("OPAQUE", "%s.%s" % (v[1], pr[1]))
        if pr[0] == "variant":
            if isinstance(v, tuple) and v and v[0] == "ENUM":
                idx = VARIANT_BY_NAME.get(pr[1])
                if idx is None or idx not in v[2]:
                    raise Unsupported("variant %s of %r" % (pr[1], v))
                return ("TUPLE", list(v[2][idx]))
            raise Unsupported("variant projection on %r in %s" % (v, text))
        if pr[0] == "field":
            if isinstance(v, tuple) and v and v[0] == "TUPLE":
                return v[1][pr[1]]
            raise Unsupported("field projection on %r in %s" % (v, text))
        raise Unsupported(str(pr))

    # ----- operands / rvalues ---------------------------------------------------------------
    def operand(self, path, text, ty=None):
        t = text.strip()
        t = re.sub(r"^no_retag ", "", t)
        if t.startswith("const "):
            return self.const(path, t[6:].strip())
        m = re.match(r"^(copy|move) (.+)$", t)
        if m:
            return self.read_place(path, m.group(2))
        return self.read_place(path, t)

    def const(self, path, c):
        if c == "true":
            return z3.BoolVal(True)
        if c == "false":
            return z3.BoolVal(False)
        m = re.match(r"^(-?\d+)_(u8|u16|u32|u64|usize|i8|i16|i32|i64|isize)$", c)
        if m:
            return z3.BitVecVal(int(m.group(1)), INT_WIDTH[m.group(2)])
        if c.startswith('"'):
            return ("STR", c)
        if c.startswith('b"'):
            return ("BYTES", c[1:])
        m = re.match(r"^'(.)'$", c)
        if m:
            return ("CHAR", m.group(1))
        if c == "()":
            return ("TUPLE", [])
        m = re.search(r"(\{closure#\d+\}::\{constant#\d+\})$", c)
        if m:
            cands = [f for k, f in self.consts.items() if k.endswith(m.group(1))]
            if len(cands) != 1:
                raise Unsupported("inline constant %s (%d candidates)" % (c, len(cands)))
            ps = self.run(cands[0], "bb0", {}, stop=())
            rets = [p for p in ps if p.outcome[0] == "RETURN"]
            if len(ps) != 1 or len(rets) != 1:
                # a constant must evaluate along exactly one feasible path
                feas = [p for p in ps if self.feasible(p.pc)]
                if len(feas) != 1 or feas[0].outcome[0] != "RETURN":
                    raise Unsupported("inline constant %s does not evaluate to one value" % c)
                rets = feas
            v = rets[0].outcome[1]
            return z3.simplify(v) if is_bv(v) else v
        return ("OPAQUE", "const " + c[:60])

    def feasible(self, pc):
        s = z3.Solver()
        s.add(*pc)
        self.queries += 1
        return s.check() == z3.sat

    def rvalue(self, path, rv, dst_ty=None):
        rv = rv.strip()
        if rv.startswith(("copy ", "move ", "const ", "no_retag ")):
            m = re.match(r"^(copy|move) (.+?) as (\w+) \((\w+)\)$", rv)
            if m:
                v = self.operand(path, "%s %s" % (m.group(1), m.group(2)))
                w = INT_WIDTH.get(m.group(3))
                if is_bv(v) and w:
                    if w > v.size():
                        return z3.ZeroExt(w - v.size(), v)
                    if w < v.size():
                        return z3.Extract(w - 1, 0, v)
                    return v
                raise Unsupported("cast %r" % rv)
            return self.operand(path, rv)
        m = re.match(r"^&(?:mut |raw const |raw mut )?(_\d+)$", rv)
        if m:
            return ("REF", m.group(1))
        m = re.match(r"^&(?:mut |raw const |raw mut )?(.+)$", rv)
        if m:
            inner = m.group(1)
            mm = re.match(r"^\(\*(_\d+)\)$", inner)
            if mm:
                return path.env.get(mm.group(1))       # reborrow
            return ("REFVAL", self.read_place(path, inner))
        m = re.match(r"^discriminant\((.+)\)$", rv)
        if m:
            v = self.read_place(path, m.group(1))
            if isinstance(v, tuple) and v and v[0] == "ENUM":
                d = v[1]
                return z3.BitVecVal(d, 64) if isinstance(d, int) else z3.ZeroExt(64 - d.size(), d) if d.size() < 64 else d
            if self.lenient and isinstance(v, tuple) and v and v[0] == "OPAQUE":
                self.fresh += 1
                return z3.BitVec("discriminant_%d" % self.fresh, 64)
            raise Unsupported("discriminant of %r" % (v,))
        m = re.match(r"^(Eq|Ne|Lt|Le|Gt|Ge|BitAnd|BitOr|BitXor|Add|Sub|Mul)\((.+)\)$", rv)
        if m:
            a, b = [self.operand(path, x) for x in split_top(m.group(2))]
            op = m.group(1)
            if is_bv(a) and is_bv(b):
                # unsigned comparisons: every integer in the fragments handled here is unsigned
                return {"Eq": lambda: a == b, "Ne": lambda: a != b, "Lt": lambda: z3.ULT(a, b), "Le": lambda: z3.ULE(a, b),
                        "Gt": lambda: z3.UGT(a, b), "Ge": lambda: z3.UGE(a, b), "BitAnd": lambda: a & b, "BitOr": lambda: a | b,
                        "BitXor": lambda: a ^ b, "Add": lambda: a + b, "Sub": lambda: a - b, "Mul": lambda: a * b}[op]()
            if is_bool(a) and is_bool(b) and op in ("Eq", "Ne", "BitAnd", "BitOr"):
                return {"Eq": a == b, "Ne": a != b, "BitAnd": z3.And(a, b), "BitOr": z3.Or(a, b)}[op]
            raise Unsupported("binary op on %r, %r" % (a, b))
        m = re.match(r"^(AddWithOverflow|SubWithOverflow)\((.+)\)$", rv)
        if m:
            a, b = [self.operand(path, x) for x in split_top(m.group(2))]
            w = a.size()
            if m.group(1) == "AddWithOverflow":
                wide = z3.ZeroExt(1, a) + z3.ZeroExt(1, b)
                return ("TUPLE", [a + b, z3.Extract(w, w, wide) == 1])
            return ("TUPLE", [a - b, z3.ULT(a, b)])
        m = re.match(r"^Not\((.+)\)$", rv)
        if m:
            a = self.operand(path, m.group(1))
            if is_bool(a):
                return z3.Not(a)
            if is_bv(a):
                return ~a
            raise Unsupported("Not on %r" % (a,))
        m = re.match(r"^(?:[A-Za-z_0-9:<>, '&()\[\]]+?)::(Some|None|Ok|Err|Continue|Done|Break)(?:\((.*)\))?$", rv)
        if m:
            args = [self.operand(path, x) for x in split_top(m.group(2))] if m.group(2) else []
            idx = VARIANT_BY_NAME[m.group(1)]
            return enum(idx, {idx: args})
        m = re.match(r"^\[(.*)\]$", rv)
        if m:
            return ("ARR", [self.operand(path, x) for x in split_top(m.group(1))])
        m = re.match(r"^(\{closure@[^}]*\}|[A-Za-z_][A-Za-z_0-9:<>, ]*) \{ (.*) \}$", rv)
        if m:
            # struct / closure aggregate: fields in declaration order
            fields = []
            for part in split_top(m.group(2)):
                name, _, val = part.partition(": ")
                fields.append(self.operand(path, val))
            return ("TUPLE", fields)
        m = re.match(r"^\((.*)\)$", rv)
        if m and ("," in rv or rv == "()"):
            return ("TUPLE", [self.operand(path, x) for x in split_top(m.group(1))])
        raise Unsupported("rvalue %r" % rv)

    # ----- control --------------------------------------------------------------------------
    def run(self, func, start_bb, env, stop, pc=None):
        """All paths from start_bb until a block in `stop` is about to be entered, the function returns,
        or a panic is reached. Returns a list of Path (path condition not yet checked for feasibility)."""
        done = []
        self.cur_locals = func.locals
        work = [(start_bb, Path(dict(env), list(pc or []), [], {}))]
        while work:
            bb, path = work.pop()
            if bb in stop and path.visited:
                path.outcome = ("EXIT", bb)
                done.append(path)
                continue
            path.visited[bb] = path.visited.get(bb, 0) + 1
            if path.visited[bb] > 1:
                raise Unsupported("loop through %s in %s: not a loop-free fragment" % (bb, func.name))
            blk = func.blocks[bb]
            SymExec.steps += 1
            for (text, line) in blk.stmts:
                self.stmt(path, func, text)
            term, line = blk.term
            for (nbb, npath) in self.terminator(path, func, term, line):
                if nbb is None:
                    done.append(npath)
                else:
                    work.append((nbb, npath))
        return done

    def stmt(self, path, func, text):
        if text.startswith(("StorageLive", "StorageDead", "nop", "FakeRead", "AscribeUserType", "PlaceMention", "Retag", "Coverage", "ConstEvalCounter", "Deinit(", "Assume(", "assume(")):
            return
        m = re.match(r"^(.+?) = (.+);$", text)
        if m:
            dst = m.group(1).strip()
            val = self.rvalue(path, m.group(2).strip())
            if re.match(r"^_\d+$", dst):
                path.env[dst] = val
                return
            raise Unsupported("assignment to place %s" % dst)
        raise Unsupported("statement %r" % text)

    def terminator(self, path, func, term, line):
        m = re.match(r"^goto -> (bb\d+);$", term)
        if m:
            return [(m.group(1), path)]
        if term == "return;":
            path.outcome = ("RETURN", path.env.get("_0"))
            return [(None, path)]
        if term == "unreachable;":
            path.outcome = ("UNREACHABLE", line)
            return [(None, path)]
        m = re.match(r"^switchInt\((.+?)\) -> \[(.*)\];$", term)
        if m:
            v = self.operand(path, m.group(1))
            arms = []
            other = None
            for part in m.group(2).split(", "):
                k, b = part.split(": ")
                if k == "otherwise":
                    other = b
                else:
                    arms.append((int(k), b))
            out = []
            if is_bool(v):
                v = z3.If(v, z3.BitVecVal(1, 8), z3.BitVecVal(0, 8))
            if not is_bv(v):
                raise Unsupported("switchInt on %r" % (v,))
            v = z3.simplify(v)
            conds = []
            for k, b in arms:
                c = v == z3.BitVecVal(k, v.size())
                conds.append(c)
                out.append((b, path.fork(c)))
            if other is not None:
                out.append((other, path.fork(z3.Not(z3.Or(*conds)) if conds else z3.BoolVal(True))))
            # prune statically false branches early
            res = []
            for b, p in out:
                if z3.is_false(z3.simplify(p.pc[-1])):
                    continue
                res.append((b, p))
            return res
        m = re.match(r"^drop\((.+?)\) -> (?:\[return: (bb\d+), unwind[^\]]*\]|(bb\d+));$", term)
        if m:
            path.events.append(("drop", m.group(1)))
            return [(m.group(2) or m.group(3), path)]
        m = re.match(r"^assert\((.+?), \"(.*?)\".*\) -> \[success: (bb\d+), unwind[^\]]*\];$", term)
        if m:
            c = m.group(1).strip()
            neg = c.startswith("!")
            v = self.operand(path, c.lstrip("!"))
            if not is_bool(v):
                raise Unsupported("assert on %r" % (v,))
            ok = z3.Not(v) if neg else v
            bad = path.fork(z3.Not(ok))
            bad.outcome = ("PANIC", "assert: " + m.group(2), line)
            good = path.fork(ok)
            return [(None, bad), (m.group(3), good)]
        m = re.match(r"^(.*\)) -> (?:\[return: (bb\d+), unwind[^\]]*\]|unwind [a-z]+|(bb\d+));$", term)
        if m:
            head, ret_bb = m.group(1), m.group(2)
            depth, i = 0, len(head) - 1
            while i >= 0:
                if head[i] == ")":
                    depth += 1
                elif head[i] == "(":
                    depth -= 1
                    if depth == 0:
                        break
                i -= 1
            args = head[i + 1:-1]
            pre = head[:i]
            md = re.match(r"^(_\d+) = (.+)$", pre)
            dst, callee = (md.group(1), md.group(2).strip()) if md else (None, pre.strip())
            if ret_bb is None:
                path.outcome = ("PANIC", "diverging call " + callee.split("::")[-1], line)
                return [(None, path)]
            vals = [self.operand(path, x) for x in split_top(args)] if args.strip() else []
            return self.call(path, dst, callee, vals, ret_bb, line)
        raise Unsupported("terminator %r" % term)

    def deref(self, path, v):
        if isinstance(v, tuple) and v and v[0] == "REF":
            return path.env.get(v[1])
        if isinstance(v, tuple) and v and v[0] == "REFVAL":
            return v[1]
        return v

    def call(self, path, dst, callee, vals, ret_bb, line):
        path_func_locals = getattr(self, "cur_locals", {})

        def ret(v, p=path):
            if dst:
                p.env[dst] = v
            return [(ret_bb, p)]
        m = re.match(r"^core::num::<impl (u8|u16|u32|u64|usize)>::(checked_add|checked_sub|wrapping_add|wrapping_sub)$", callee)
        if m:
            a, b = vals
            if not (is_bv(a) and is_bv(b)):
                raise Unsupported("%s on %r, %r" % (callee, a, b))
            if m.group(2) == "checked_add":
                w = a.size()
                over = z3.Extract(w, w, z3.ZeroExt(1, a) + z3.ZeroExt(1, b)) == 1
                return ret(enum(z3.If(over, z3.BitVecVal(0, 8), z3.BitVecVal(1, 8)), {1: [a + b]}))
            if m.group(2) == "checked_sub":
                return ret(enum(z3.If(z3.ULT(a, b), z3.BitVecVal(0, 8), z3.BitVecVal(1, 8)), {1: [a - b]}))
            return ret(a + b if m.group(2) == "wrapping_add" else a - b)
        m = re.match(r"^core::num::<impl (u8|u16|u32|u64|usize)>::(saturating_sub|saturating_add)$", callee)
        if m:
            a, b = vals
            if not (is_bv(a) and is_bv(b)):
                raise Unsupported("%s on %r, %r" % (callee, a, b))
            if m.group(2) == "saturating_sub":
                return ret(z3.If(z3.ULT(a, b), z3.BitVecVal(0, a.size()), a - b))
            w = a.size()
            over = z3.Extract(w, w, z3.ZeroExt(1, a) + z3.ZeroExt(1, b)) == 1
            return ret(z3.If(over, z3.BitVecVal(-1, w), a + b))
        m = re.match(r"^NonZero::<(u8|u16|u32|u64|usize)>::(get|checked_add|new)$", callee)
        if m:
            if m.group(2) == "get":
                return ret(vals[0])
            if m.group(2) == "new":
                a = vals[0]
                return ret(enum(z3.If(a == 0, z3.BitVecVal(0, 8), z3.BitVecVal(1, 8)), {1: [a]}))
            a, b = vals
            w = a.size()
            over = z3.Extract(w, w, z3.ZeroExt(1, a) + z3.ZeroExt(1, b)) == 1
            return ret(enum(z3.If(over, z3.BitVecVal(0, 8), z3.BitVecVal(1, 8)), {1: [a + b]}))
        if re.match(r"^(?:std::option::)?Option::<.*>::(expect|unwrap)$", callee) or re.match(r"^(?:std::result::)?Result::<.*>::(expect|unwrap)$", callee):
            v = vals[0]
            if not (isinstance(v, tuple) and v and v[0] == "ENUM"):
                raise Unsupported("%s on %r" % (callee, v))
            good_idx = 0 if re.match(r"^(?:std::result::)?Result::<", callee) else 1
            d = v[1]
            msg = vals[1][1] if len(vals) > 1 and isinstance(vals[1], tuple) and vals[1][0] == "STR" else "unwrap"
            payload = v[2].get(good_idx, [None])
            pv = payload[0] if payload else ("TUPLE", [])
            if isinstance(d, int):
                if d == good_idx:
                    return ret(pv)
                path.outcome = ("PANIC", "expect: " + msg, line)
                return [(None, path)]
            okc = d == z3.BitVecVal(good_idx, d.size())
            bad = path.fork(z3.Not(okc))
            bad.outcome = ("PANIC", "expect: " + msg, line)
            good = path.fork(okc)
            return [(None, bad)] + ret(pv, good)
        m = re.match(r"^<(usize|u32|u64) as Ord>::(min|max)$", callee)
        if m:
            a, b = vals
            if not (is_bv(a) and is_bv(b)):
                raise Unsupported("%s on %r, %r" % (callee, a, b))
            return ret(z3.If(z3.ULE(a, b), a, b) if m.group(2) == "min" else z3.If(z3.UGE(a, b), a, b))
        if re.match(r"^<Option<.*> as Try>::branch$", callee):
            v = vals[0]
            if not (isinstance(v, tuple) and v and v[0] == "ENUM"):
                raise Unsupported("Try::branch on %r" % (v,))
            d = v[1]
            # Some(x) -> Continue(x) (0), None -> Break(None) (1)
            if isinstance(d, int):
                return ret(enum(0, {0: v[2].get(1, [None])}) if d == 1 else enum(1, {1: [none()]}))
            return ret(enum(z3.If(d == 1, z3.BitVecVal(0, 8), z3.BitVecVal(1, 8)), {0: v[2].get(1, [None]), 1: [none()]}))
        if re.match(r"^<Option<.*> as FromResidual<Option<Infallible>>>::from_residual$", callee):
            return ret(none())
        for rx, tag, kind in self.opaque:
            if re.search(rx, callee):
                args = [self.deref(path, v) for v in vals]
                path.events.append((tag, args, line))
                if callable(kind):
                    return ret(kind(self, path, vals, args))
                if kind == "bool?":
                    self.fresh += 1
                    return ret(z3.Bool("opaque_bool_%d" % self.fresh))
                if kind == "ok":
                    return ret(enum(0, {0: [("TUPLE", [])]}))
                if kind == "pass":
                    return ret(vals[0] if vals else None)
                if kind == "wrap":
                    return ret((tag.upper(),) + tuple(args))
                return ret(("OPAQUE", tag))
        if self.lenient:
            self.fresh += 1
            ty = (path_func_locals.get(dst, "") if dst else "")
            short = re.sub(r"<.*", "", callee.split("::")[-1]) or callee[-30:]
            if ty == "bool":
                v = z3.Bool("ret_%s_%d" % (short, self.fresh))
            elif re.match(r"^(?:std::option::)?Option<", ty):
                d = z3.BitVec("ret_%s_is_some_%d" % (short, self.fresh), 8)
                path.pc.append(z3.Or(d == 0, d == 1))
                v = enum(d, {1: [("OPAQUE", "ret:%s#%d.some" % (short, self.fresh))]})
            else:
                v = ("OPAQUE", "ret:%s#%d" % (short, self.fresh))
            path.events.append(("call", callee, [self.deref(path, x) for x in vals], v, line))
            return ret(v)
        raise Unsupported("unknown callee %s @%s" % (callee, line))
