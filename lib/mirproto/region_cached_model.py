"""region_cached (RegionCached<T>): scenarios, interpretation tables, monitors (C13 slice).

From MIR on every run: `RegionCached::{with_in_region, set_global}`, `GlobalState::invalidate_regions`,
`RegionalState::{try_with_value, initialize, clear}`. Shared state: `next_generation` (atomic),
`latest_value` (ArcSwap<Arc<GenerationValue>>: modelled as one atomic cell holding the generation
number - the payload is determined by it), one `ArcSwapOption<RegionalValue>` per region (one atomic
cell: 0 = None, 1 = Initializing, 2+g = Ready(generation g)). arc-swap load / store /
compare_and_swap are sequentially consistent single-cell operations (its documented contract);
`compare_and_swap` is only accepted with the `None` guard the code passes (pointer identity and value
equality coincide for None). rsevents' ManualResetEvent: `wait` may return at any time (the code
re-reads the cell after every wait, so an early return is a behaviour superset), `set` is a local
step. The user's read callback is a visible step that records the generation it was given."""
import os
import re

from . import auto as A
from . import mir as M

NONE, INIT = 0, 1
MAXGEN = 5


def enc(v):
    """Option<Arc<RegionalValue>> structure -> cell value"""
    if v == ("ENUM", "None"):
        return NONE
    if isinstance(v, tuple) and v[:2] == ("ENUM", "Some"):
        inner = v[2]
        if isinstance(inner, tuple) and inner[1] == "Initializing":
            return INIT
        if isinstance(inner, tuple) and inner[1] in ("Ready", "RvReady") and isinstance(inner[2], tuple) and inner[2][0] == "TUPLE" and isinstance(inner[2][1], int):
            if inner[2][1] > MAXGEN:
                raise A.Unsupported("generation %d beyond the modelled range" % inner[2][1])
            return 2 + inner[2][1]
    raise A.Unsupported("regional value %r cannot be encoded" % (v,))


def gv(g):
    return ("TUPLE", g, ("VAL", g))


def dec(x):
    if x == NONE:
        return ("ENUM", "None")
    if x == INIT:
        return ("ENUM", "Some", ("ENUM", "Initializing", "EVT"))
    return ("ENUM", "Some", ("ENUM", "RvReady", gv(x - 2)))


def load(mir_path, repo, nregions):
    funcs = M.parse(mir_path)
    src = open(os.path.join(repo, "packages/region_cached/src/region_cached.rs")).read()

    def field_order(struct):
        m = re.search(r"struct %s<T>[^{]*\{(.*?)\n\}" % struct, src, re.S)
        if not m:
            raise A.Unsupported("struct %s not found" % struct)
        body = re.sub(r"//[^\n]*", "", m.group(1))
        body = re.sub(r"#\[[^\]]*\]", "", body)
        return re.findall(r"^\s*(?:pub(?:\([a-z]+\))?\s+)?(\w+)\s*:", body, re.M)
    gfields = field_order("GlobalState")
    if sorted(gfields) != ["latest_value", "next_generation", "regional_states"]:
        raise A.Unsupported("GlobalState fields changed: %r" % (gfields,))
    gvf = field_order("GenerationValue")
    if gvf != ["generation", "value"]:
        raise A.Unsupported("GenerationValue fields changed: %r" % (gvf,))
    m = re.search(r"next_generation:\s*AtomicU64::(?:new\((\d+)\)|(default)\(\))", src)
    m2 = re.search(r"ArcSwap::from_pointee\(GenerationValue \{\s*generation:\s*(\d+)", src)
    if not m or not m2:
        raise A.Unsupported("initial generation constants not found in GlobalState::new")
    init = dict(gen=0 if m.group(2) else int(m.group(1)), latest=int(m2.group(1)))

    def find(name):
        c = [f for k, f in funcs.items() if re.search(r"^region_cached::<impl at [^>]*region_cached\.rs:\d+:\d+: \d+:\d+>::" + re.escape(name) + "$", k)]
        if len(c) != 1:
            raise A.Unsupported("function %s not found exactly once in the MIR dump (%d)" % (name, len(c)))
        return c[0]

    def resolve(callee):
        m = re.match(r"^(?:region_cached::)?(?:RegionCached|GlobalState|RegionalState)::<T>::(\w+)(?:::<.*>)?$", callee)
        if m and m.group(1) in ("with_in_region", "set_global", "invalidate_regions", "try_with_value", "initialize", "clear"):
            return find(m.group(1))
        return None

    def base_of(fr, arg):
        """value of the local X in the statement `<arg local> = &((*X).N: ...)` defining an operand"""
        mm = re.match(r"^(?:move|copy) (_\d+)$", arg.strip())
        if mm:
            for blk in fr.func.blocks.values():
                for (t, _) in blk.stmts:
                    m2 = re.match(r"^%s = &\(\(\*(_\d+)\)\.(\d+): (.*)\);$" % re.escape(mm.group(1)), t)
                    if m2:
                        return fr.env.get(m2.group(1)), int(m2.group(2)), m2.group(3)
        return None, None, None

    def region_loc(fr, arg):
        v, idx, ty = base_of(fr, arg)
        if isinstance(v, tuple) and v and v[0] == "REGION":
            return "reg%d" % v[1]
        raise A.Unsupported("regional cell reached through an untracked RegionalState (%s in %s): %r" % (arg, fr.func.short(), v))

    def atomic_loc_of(fr, arg):
        v, idx, ty = base_of(fr, arg)
        if idx is not None and "Atomic<u64>" in ty and gfields[idx] == "next_generation":
            return "gen"
        raise A.Unsupported("atomic access to an unknown location (%s in %s)" % (arg, fr.func.short()))

    state = dict(cur_op=None)

    def extra_visible(callee, args, fr, vals):
        if re.match(r"^ArcSwapAny::<Arc<GenerationValue<T>>>::load$", callee):
            return dict(kind="ATOMIC", op="load", ints=[], ords=["SeqCst"], loc="latest", domain=list(range(MAXGEN + 1)), result_value={g: gv(g) for g in range(MAXGEN + 1)})
        if re.match(r"^ArcSwapAny::<Arc<GenerationValue<T>>>::store$", callee):
            v = vals[1]
            if not (isinstance(v, tuple) and v[0] == "TUPLE" and isinstance(v[1], int)):
                raise A.Unsupported("latest_value.store of %r" % (v,))
            if v[1] > MAXGEN:
                raise A.Unsupported("generation beyond the modelled range")
            return dict(kind="ATOMIC", op="store", ints=[v[1]], ords=["SeqCst"], loc="latest")
        if re.match(r"^ArcSwapAny::<Option<Arc<RegionalValue<T>>>>::load$", callee):
            return dict(kind="ATOMIC", op="load", ints=[], ords=["SeqCst"], loc=region_loc(fr, args[0]), result_value={x: dec(x) for x in A.STATE_DOMAIN})
        if re.match(r"^ArcSwapAny::<Option<Arc<RegionalValue<T>>>>::store$", callee):
            return dict(kind="ATOMIC", op="store", ints=[enc(vals[1])], ords=["SeqCst"], loc=region_loc(fr, args[0]))
        if re.match(r"^ArcSwapAny::<Option<Arc<RegionalValue<T>>>>::compare_and_swap::<", callee):
            exp, new = enc(vals[1]), enc(vals[2])
            if exp != NONE:
                raise A.Unsupported("compare_and_swap with a non-None guard (pointer identity is not modelled)")
            rv = {("ENUM", "Ok", exp): dec(exp)}
            for x in A.STATE_DOMAIN:
                if x != exp:
                    rv[("ENUM", "Err", x)] = dec(x)
            return dict(kind="ATOMIC", op="compare_exchange", ints=[exp, new], ords=["SeqCst", "SeqCst"], loc=region_loc(fr, args[0]), result_value=rv)
        if re.search(r"<ManualResetEvent as Awaitable<'_>>::wait$", callee):
            return dict(kind="SPIN")
        if re.search(r"(^|::)ManualResetEvent::set$", callee):
            return dict(kind="SPIN")
        if re.match(r"^<F as FnOnce<\(&T,\)>>::call_once$", callee):
            t = vals[1]
            if not (isinstance(t, tuple) and t[0] == "TUPLE" and isinstance(t[1], tuple) and t[1][0] == "VAL"):
                raise A.Unsupported("read callback invoked with %r" % (t,))
            return dict(kind="NOP", ghost=dict(resp=(state["cur_op"], 2, t[1][1])), results=[None], result_value={None: "RESULT"})
        return None

    def extra_rvalue(interp, fr, rv):
        mm = re.match(r"^(?:region_cached::)?GenerationValue::<T> \{ generation: (.+?), value: (.+) \}$", rv)
        if mm:
            g = interp.operand(fr, mm.group(1))
            interp.operand(fr, mm.group(2))
            if not isinstance(g, int):
                raise A.Unsupported("GenerationValue with an untracked generation")
            return gv(g)
        mm = re.match(r"^(?:region_cached::)?RegionalValue::<T>::Initializing\((.+)\)$", rv)
        if mm:
            interp.operand(fr, mm.group(1))
            return ("ENUM", "Initializing", "EVT")
        return NotImplemented

    def extra_call(interp, callee, vals, fr, dst):
        def out(v):
            if dst:
                fr.env[dst] = v
            return True
        if re.search(r"<Arc<GlobalState<T>> as Deref>::deref$", callee):
            return out("GLOBAL")
        if re.search(r"<&(?:std::boxed::)?Box<\[OnceLock<Arc<RegionalState<T>>>\]> as IntoIterator>::into_iter$", callee):
            return out(("ITER", 0))
        if re.search(r"slice::Iter<'_, OnceLock<Arc<RegionalState<T>>>> as Iterator>::next$", callee):
            r = vals[0]
            if not (isinstance(r, tuple) and r[0] == "REF" and isinstance(fr.env.get(r[1]), tuple) and fr.env[r[1]][0] == "ITER"):
                raise A.Unsupported("slice::Iter::next on %r" % (r,))
            idx = fr.env[r[1]][1]
            if idx < nregions:
                fr.env[r[1]] = ("ITER", idx + 1)
                return out(("ENUM", "Some", ("ONCE", idx)))
            return out(("ENUM", "None"))
        if re.match(r"^OnceLock::<Arc<RegionalState<T>>>::get$", callee):
            v = vals[0]
            if not (isinstance(v, tuple) and v[0] == "ONCE"):
                raise A.Unsupported("OnceLock::get on %r" % (v,))
            return out(("ENUM", "Some", ("REGION", v[1])))      # every region's slot has been created (a reader has been there)
        if re.match(r"^Arc::<.*>::new$", callee) or re.search(r"<Arc<ManualResetEvent> as Clone>::clone$", callee):
            return out(interp.deref_alias(fr, vals[0]))
        if re.search(r"<GenerationValue<T> as Clone>::clone$", callee):
            return out(interp.deref_alias(fr, vals[0]))
        if re.match(r"^ManualResetEvent::new$", callee):
            return out("EVT")
        if re.match(r"^(?:scopeguard::)?guard::<", callee):
            return out("SCOPEGUARD")
        if re.match(r"^(?:scopeguard::)?ScopeGuard::<.*>::into_inner$", callee):
            return out(A.UNIT)
        if re.match(r"^Option::<.*>::(is_some|is_none)$", callee):
            v = interp.deref_alias(fr, vals[0])
            if not (isinstance(v, tuple) and v[0] == "ENUM" and v[1] in ("Some", "None")):
                raise A.Unsupported("%s on %r" % (callee, v))
            return out(int((v[1] == "Some") == callee.endswith("is_some")))
        return False

    cfg = A.Config(funcs, {}, resolve, atomic_loc_of=atomic_loc_of, extra_visible=extra_visible, extra_call=extra_call, extra_rvalue=extra_rvalue)
    cfg.state = state
    cfg.atomic_domain = lambda loc: list(range(MAXGEN + 1)) if loc == "gen" else None
    return funcs, cfg, find, init


class ThreadBuilder:
    def __init__(self, cfg, find, opbase):
        self.cfg, self.find, self.opbase = cfg, find, opbase
        self.interp = A.Interp(cfg)
        self.nodes = {}
        self.next_id = 0
        self.cur_item = 0
        self.item_of = {}
        self.kinds = []       # logical ops of this thread: ('set',) | ('read', region)

    def new_node(self, op, succ=None):
        nid = self.next_id
        self.next_id += 1
        self.nodes[nid] = dict(op=op, succ=succ or {})
        self.item_of[nid] = self.cur_item
        return nid

    def func_automaton(self, fname, args, on_return, o):
        self.cfg.state["cur_op"] = o
        b = A.Builder(self.interp)
        entry = b.start(self.find(fname), args)
        remap = {}
        for n in b.nodes:
            op = dict(n.op)
            if fname == "set_global" and op["kind"] == "ATOMIC" and op["op"] == "store" and op.get("loc") == "latest":
                op["ghost"] = dict(resp=(o, 2, op["ints"][0]))        # the generation this write published
            if op["kind"] == "ATOMIC" and op["op"] == "store" and str(op.get("loc", "")).startswith("reg") and op["ints"][0] >= 2:
                # history flag for the known finding: an outdated copy is installed (latest generation already differs)
                op["ghost"] = dict(stale_install=op["ints"][0] - 2)
            remap[n.id] = self.new_node(op)
        cont = {}

        def conv(x):
            if isinstance(x, int):
                return remap[x]
            if x[0] == "PANIC":
                return x
            key = repr(x[1])
            if key not in cont:
                cont[key] = on_return(x[1])
            return cont[key]
        for n in b.nodes:
            self.nodes[remap[n.id]]["succ"] = {k: conv(v) for k, v in n.succ.items()}
        return conv(entry) if not isinstance(entry, int) else remap[entry]

    def program(self, items):
        """items: 'set' | ('read', region)"""
        def go(i):
            if i >= len(items):
                return "END"
            self.cur_item = i
            it = items[i]
            o = self.opbase + i
            obj = {"_1": ("OBJ", "rc"), "@rc.0": "F0", "@rc.1": "F1", "@rc.2": "F2", "@rc.3": "F3"}
            if it == "set":
                return self.func_automaton("set_global", dict(obj, _2="NEWVALUE"), lambda v: go(i + 1), o)
            return self.func_automaton("with_in_region", dict(obj, _2=("REGION", int(it[1])), _3="CALLBACK"), lambda v: go(i + 1), o)
        for it in items:
            self.kinds.append(("set",) if it == "set" else ("read", int(it[1])))
        return go(0)


# scenario = (number of regions, initial regional cells ('none' | 'ready0'), thread programs, step bound quick, step bound thorough)
# The retry path of with_in_region is long (longest paths 77-164 steps): the bounds below are what z3 decides in
# minutes; runs with more visible steps (more retries / waits) are outside the bound. The defect of DESIGN.md
# section 0 needs 11 steps.
QUICK = [
    (1, ["none"], [["set"], [("read", 0)]], 60, 77),
    (1, ["ready0"], [["set"], [("read", 0)]], 60, 77),
    (1, ["ready0"], [["set", ("read", 0)], [("read", 0)]], 40, 48),
    (1, ["ready0"], [["set"], ["set"], [("read", 0)]], 40, 60),
    (2, ["ready0", "none"], [["set"], [("read", 0)], [("read", 1)]], 34, 40),
    (1, ["ready0"], [["set", "set"], [("read", 0), ("read", 0)]], 40, 60),
    # exhibits the known finding (own write not observed behind a reader's outdated install): 21 steps
    (1, ["none"], [["set", ("read", 0)], [("read", 0)]], 28, 44),
]
THOROUGH = QUICK + [
    # not registered: no verdict within 30 min at 40 steps / 8 min at 32 steps (three threads, two 74-node readers)
    # (1, ["none"], [["set"], [("read", 0)], [("read", 0)]], 36, 40),
    (1, ["none"], [["set", "set"], [("read", 0), ("read", 0)]], 40, 56),
    # not registered: no verdict within 30 min at 48 steps / 8 min at 36 steps
    # (1, ["ready0"], [["set", ("read", 0)], ["set"], [("read", 0)]], 40, 48),
]


def prog_name(sc):
    n, ini, progs = sc[:3]
    return "regions %s | %s" % (",".join(ini), " || ".join(",".join(x if isinstance(x, str) else "read(r%s)" % x[1] for x in p) for p in progs))


def build_scenario(cfg, find, progs):
    from .events_once_model import longest_path
    threads, kinds, base = [], [], 0
    for p in progs:
        p = [tuple(x) if isinstance(x, list) else x for x in p]
        tb = ThreadBuilder(cfg, find, base)
        e = tb.program(p)
        threads.append(dict(nodes=tb.nodes, entry=e, item_of=tb.item_of))
        kinds.append(tb.kinds)
        base += len(p)
    k = 0
    for th in threads:
        lp, loops = longest_path(th["nodes"], th["entry"])
        k += lp + 2 * min(loops, 3)
    return threads, k, kinds
