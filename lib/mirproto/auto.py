"""Concrete interpreter of thread-local MIR + extraction of per-thread *visible-step automata*.

Thread-local computation (locals, drop flags, enum discriminants, call/return of crate-local
functions) is executed concretely; every operation on shared memory (atomics, fences, the payload /
waker cells, waker callbacks, storage release) is a *visible op* and becomes a node of the automaton.
Results of visible ops that read shared memory are not known here: the automaton branches over every
possible result value, and the SMT encoding (encode.py) picks the branch from the symbolic shared
state. Anything the tables below do not know aborts the extraction (fail closed)."""
import re

from . import mir as M


class Unsupported(Exception):
    pass


VARIANT_INDEX = {"None": 0, "Some": 1, "Ok": 0, "Err": 1, "Ready": 0, "Pending": 1, "SlotPending": 0, "SlotReady": 1, "Initializing": 0, "RvReady": 1}
# variants of a crate enum whose names clash with a std enum tracked above (future_deque: Slot::{Pending, Ready})
VARIANT_ALIAS = {"SlotPending": "Pending", "SlotReady": "Ready", "RvReady": "Ready"}
ORDERINGS = ("Relaxed", "Release", "Acquire", "AcqRel", "SeqCst")
STATE_DOMAIN = list(range(8))     # values an atomic byte read may return in the model (asserted < 8)

VALUE = "VALUE"    # the payload token
MOVED = "MOVED"
UNIT = "UNIT"


def waker(i):
    return ("WAKER", i)


def is_waker(v):
    return isinstance(v, tuple) and len(v) == 2 and v[0] == "WAKER"


def contains(v, pred):
    if pred(v):
        return True
    if isinstance(v, tuple) and v and v[0] == "ENUM":
        return any(contains(x, pred) for x in v[2:])
    if isinstance(v, tuple) and v and v[0] == "TUPLE":
        return any(contains(x, pred) for x in v[1:])
    return False


def freeze(v):
    if isinstance(v, dict):
        return tuple(sorted((k, freeze(x)) for k, x in v.items() if x is not None))
    if isinstance(v, list):
        return tuple(freeze(x) for x in v)
    return v


RE_LOCAL = re.compile(r"_\d+")


def _balanced(t):
    return t.count("(") == t.count(")")
_LIVE_CACHE = {}


def successors(term):
    return re.findall(r"bb\d+", term.split("->", 1)[1]) if "->" in term else []


def liveness(func):
    """live-in sets per block (syntactic use/def on the MIR text; cleanup blocks included)."""
    if func.name in _LIVE_CACHE:
        return _LIVE_CACHE[func.name]
    use, dfn, succ = {}, {}, {}
    for name, blk in func.blocks.items():
        u, d = set(), set()
        items = [t for (t, _) in blk.stmts] + ([blk.term[0]] if blk.term else [])
        for text in items:
            head = text.split("->", 1)[0]
            m = re.match(r"^(_\d+) = (.*)$", head)
            if m:
                reads = set(RE_LOCAL.findall(m.group(2)))
                u |= (reads - d)
                d.add(m.group(1))
            else:
                u |= (set(RE_LOCAL.findall(head)) - d)
        use[name], dfn[name] = u, d
        succ[name] = successors(blk.term[0]) if blk.term else []
    live = {n: set() for n in func.blocks}
    changed = True
    while changed:
        changed = False
        for n in func.blocks:
            out = set()
            for s2 in succ[n]:
                out |= live.get(s2, set())
            new = use[n] | (out - dfn[n])
            if new != live[n]:
                live[n] = new
                changed = True
    _LIVE_CACHE[func.name] = live
    return live


class Frame:
    __slots__ = ("func", "env", "bb", "dst", "ret_bb")

    def __init__(self, func, env, bb="bb0", dst=None, ret_bb=None):
        self.func, self.env, self.bb, self.dst, self.ret_bb = func, env, bb, dst, ret_bb

    def copy(self):
        return Frame(self.func, dict(self.env), self.bb, self.dst, self.ret_bb)

    def live_env(self, at_bb, minus=None):
        """env restricted to locals live at the entry of `at_bb` (plus targets of live references)."""
        live = liveness(self.func).get(at_bb, set())
        keep = {k: v for k, v in self.env.items() if (k in live or k.startswith("@")) and k != minus and v is not None}
        extra = {}
        for v in list(keep.values()):
            if isinstance(v, tuple) and v and v[0] == "REF" and v[1] in self.env and self.env[v[1]] is not None:
                extra[v[1]] = self.env[v[1]]
        keep.update(extra)
        return keep

    def key(self, top):
        # top frame: positioned AT a block (its statements already executed, terminator pending): the
        # terminator's own operands are read from the full env, so key on locals live at the block's
        # successors plus those the terminator mentions. Caller frames: live at the return block.
        if top:
            blk = self.func.blocks[self.bb]
            term = blk.term[0]
            mention = set(RE_LOCAL.findall(term))
            live = set()
            for s2 in successors(term):
                live |= liveness(self.func).get(s2, set())
            keep = {k: v for k, v in self.env.items() if (k in live or k in mention or k.startswith("@")) and v is not None}
            for v in list(keep.values()):
                if isinstance(v, tuple) and v and v[0] == "REF" and v[1] in self.env and self.env[v[1]] is not None:
                    keep[v[1]] = self.env[v[1]]
            return (self.func.name, self.bb, self.dst, self.ret_bb, freeze(keep))
        return (self.func.name, self.bb, self.dst, self.ret_bb, freeze(self.live_env(self.bb, self.dst)))


class Config:
    """What the interpreter needs to know about one crate's protocol code."""

    def __init__(self, funcs, consts, local_fn_resolver, atomic_loc_of=None, extra_visible=None, extra_pure=(), drop_hook=None, extra_call=None,
                 drop_call=None, extra_rvalue=None):
        self.funcs = funcs
        self.consts = consts
        self.resolve_local = local_fn_resolver      # callee text -> Func or None
        self.atomic_loc_of = atomic_loc_of or (lambda frame, arg: "state")
        self.extra_visible = extra_visible or (lambda callee, args, frame, vals: None)
        self.extra_pure = tuple(extra_pure)
        self.drop_hook = drop_hook or (lambda v: None)
        self.extra_call = extra_call or (lambda interp, callee, vals, fr, dst: False)   # pure, crate-specific callee semantics
        self.drop_call = drop_call or (lambda v: None)          # value -> (Func, env) whose body is the value's Drop (interpreted), or None
        self.extra_rvalue = extra_rvalue or (lambda interp, fr, rv: NotImplemented)   # crate-specific aggregates


PURE_PASS_ARG0 = (
    "UnsafeCell::<", "::as_ref::<", "::as_mut::<", "::as_ref(", "unwrap_unchecked", "Deref>::deref", "DerefMut>::deref_mut",
    "MaybeUninit::<T>::new", "MaybeUninit::<Waker>::new", "MaybeUninit::<std::task::Waker>::new", "NonNull::<", "Pin::<",
    "::as_ptr", "::as_mut_ptr", "::cast::<", "ManuallyDrop::<", "std::convert::Into", "std::convert::From", "Option::<&", "::get_unchecked",
    "::deref", "::borrow", "<&", "::expect", "::unwrap",
)
PURE_NONE = ("type_name::<", "Argument::<", "Arguments::<", "core::fmt::rt::", "std::fmt::", "Backtrace", "panic::Location")


class Interp:
    def __init__(self, cfg):
        self.cfg = cfg

    # ----- operands -----------------------------------------------------------------------
    def operand(self, fr, text):
        t = text.strip()
        if t.startswith("const "):
            mp = re.search(r"::(promoted\[\d+\])$", t)
            if mp:
                return self.promoted(fr, mp.group(1))
            return self.const(t[6:].strip())
        m = re.match(r"^(copy|move) (.+)$", t)
        if m:
            v = self.place_read(fr, m.group(2).strip())
            if m.group(1) == "move":
                self.place_move_out(fr, m.group(2).strip())
            return v
        return self.place_read(fr, t)

    def promoted(self, fr, which):
        """value of the enclosing function's promoted constant (a reference to a constant aggregate)"""
        fn = self.cfg.funcs.get(fr.func.name + "::" + which)
        if fn is None or list(fn.blocks) != ["bb0"] or fn.blocks["bb0"].term[0] != "return;":
            raise Unsupported("promoted constant %s of %s" % (which, fr.func.short()))
        tmp = Frame(fn, {})
        for (text, _) in fn.blocks["bb0"].stmts:
            self.stmt(tmp, text)
        return self.deref_alias(tmp, tmp.env.get("_0"))

    def const(self, c):
        if c in ("true", "false"):
            return 1 if c == "true" else 0
        m = re.match(r"^(-?\d+)_(u8|u16|u32|u64|usize|i8|i16|i32|i64|isize)$", c)
        if m:
            return int(m.group(1))
        if c in self.cfg.consts:                       # module-qualified name, e.g. auto::IDLE
            return self.cfg.consts[c]
        m = re.match(r"^(?:[A-Za-z_0-9:]+::)?([A-Z][A-Z0-9_]+)$", c)
        if m and m.group(1) in self.cfg.consts:
            return self.cfg.consts[m.group(1)]
        if c == "()":
            return UNIT
        m = re.match(r"^(?:std::sync::atomic::)?Ordering::(\w+)$", c)
        if m:
            return ("ORD", m.group(1))
        return None        # ZST / function items / strings

    def place_read(self, fr, p):
        p = p.strip()
        m = re.match(r"^\(\((.+) as (\w+)\)\.(\d+): .*\)$", p)
        if m and not _balanced(m.group(1)):
            m = None            # nested projection: handled by the generic case at the end
        if m:
            v = self.deref_alias(fr, self.place_read(fr, m.group(1)))
            if isinstance(v, tuple) and v and v[0] == "ENUM":
                if v[1] != m.group(2) and VARIANT_ALIAS.get(v[1]) != m.group(2):
                    raise Unsupported("variant projection %s on %r" % (p, v))
                idx = int(m.group(3))
                return v[2 + idx] if len(v) > 2 + idx else None
            return None
        m = re.match(r"^\(\*(_\d+)\)$", p)
        if m:
            return self.deref_alias(fr, fr.env.get(m.group(1)))
        m = re.match(r"^(_\d+)$", p)
        if m:
            return fr.env.get(p)
        m = re.match(r"^\((_\d+)\.(\d+): .*\)$", p)
        if m:
            v = fr.env.get(m.group(1))
            if isinstance(v, tuple) and v and v[0] == "TUPLE":
                return v[1 + int(m.group(2))]
            if isinstance(v, tuple) and v and v[0] == "OBJ":
                return self.obj_field(fr, v[1], m.group(2))
            return None
        m = re.match(r"^\(\(\*(_\d+)\)\.(\d+): .*\)$", p)
        if m:
            v = self.deref_alias(fr, fr.env.get(m.group(1)))
            if isinstance(v, tuple) and v and v[0] == "OBJ":
                return self.obj_field(fr, v[1], m.group(2))
            if isinstance(v, tuple) and v and v[0] == "TUPLE":
                return v[1 + int(m.group(2))] if len(v) > 1 + int(m.group(2)) else None
            return None
        # generic nested projection "(BASE.N: TYPE)" with BASE = "(PLACE as Variant)" or a place
        if p.startswith("(") and p.endswith(")"):
            depth, cut = 0, None
            for i in range(1, len(p) - 1):
                c = p[i]
                if c in "(<[{":
                    depth += 1
                elif c in ")]}" or (c == ">" and p[i - 1] != "-"):
                    depth -= 1
                elif c == ":" and depth == 0 and p[i + 1:i + 2] == " ":
                    cut = i
                    break
            if cut is not None:
                mm = re.match(r"^(.*)\.(\d+)$", p[1:cut])
                if mm:
                    base, idx = mm.group(1), int(mm.group(2))
                    mv = re.match(r"^\((.+) as (\w+)\)$", base)
                    if mv:
                        v = self.deref_alias(fr, self.place_read(fr, mv.group(1)))
                        if isinstance(v, tuple) and v and v[0] == "ENUM" and (v[1] == mv.group(2) or VARIANT_ALIAS.get(v[1]) == mv.group(2)):
                            return v[2 + idx] if len(v) > 2 + idx else None
                        return None
                    v = self.deref_alias(fr, self.place_read(fr, base))
                    if isinstance(v, tuple) and v and v[0] == "TUPLE":
                        return v[1 + idx] if len(v) > 1 + idx else None
        return None

    def obj_field(self, fr, name, idx):
        """field of an endpoint object whose state lives in the entry frame of the operation ('@name.idx')"""
        key = "@%s.%s" % (name, idx)
        if key not in fr.env:
            raise Unsupported("field %s of endpoint object accessed outside the wrapper that owns it (%s)" % (key, fr.func.short()))
        return fr.env[key]

    def field_ref(self, fr, p):
        """('FIELDREF', name, idx) if place text p is a field of an endpoint object, else None"""
        m = re.match(r"^\((?:\(\*(_\d+)\)|(_\d+))\.(\d+): .*\)$", p.strip())
        if not m:
            return None
        v = self.deref_alias(fr, fr.env.get(m.group(1))) if m.group(1) else fr.env.get(m.group(2))
        if isinstance(v, tuple) and v and v[0] == "OBJ":
            self.obj_field(fr, v[1], m.group(3))
            return ("FIELDREF", v[1], m.group(3))
        return None

    def deref_alias(self, fr, v):
        if isinstance(v, tuple) and v and v[0] == "REF":
            return fr.env.get(v[1])
        if isinstance(v, tuple) and v and v[0] == "FIELDREF":
            return self.obj_field(fr, v[1], v[2])
        if isinstance(v, tuple) and v and v[0] == "SLOTREF":
            key = "@slot%d" % v[1]
            if key not in fr.env:
                raise Unsupported("slot %d accessed outside the operation that owns the deque (%s)" % (v[1], fr.func.short()))
            return fr.env[key]
        return v

    def place_move_out(self, fr, p):
        m = re.match(r"^(_\d+)$", p.strip())
        if m:
            v = fr.env.get(p.strip())
            if contains(v, lambda x: x == VALUE or is_waker(x)):
                fr.env[p.strip()] = MOVED
            return
        # move out of a (nested) variant field rooted at a local: the token leaves the aggregate
        path = []
        q = p.strip()
        while True:
            m = re.match(r"^\(\((.+) as (\w+)\)\.(\d+): .*\)$", q)
            if not m:
                break
            path.append(int(m.group(3)))
            q = m.group(1)
        m = re.match(r"^(_\d+)$", q)
        if path and m and contains(fr.env.get(q), lambda x: x == VALUE or is_waker(x)):
            def strip(v, idxs):
                if not idxs:
                    return MOVED
                if not (isinstance(v, tuple) and v and v[0] == "ENUM"):
                    return v
                i = 2 + idxs[-1]
                return v[:i] + (strip(v[i], idxs[:-1]),) + v[i + 1:]
            fr.env[q] = strip(fr.env[q], path)

    # ----- statements ---------------------------------------------------------------------
    def assign(self, fr, dst, rv):
        rv = rv.strip()
        val = self.rvalue(fr, rv)
        m = re.match(r"^Not\((.+)\)$", rv)
        if m and fr.func.locals.get(dst, "") in ("u8", "u16", "u32", "u64", "usize"):
            a = self.operand(fr, m.group(1))
            val = None if not isinstance(a, int) else (~a) & 0xFF
        m = re.match(r"^(_\d+)$", dst)
        if m:
            fr.env[dst] = val
            return
        m = re.match(r"^\(\*(_\d+)\)$", dst)       # write through a reference to a local
        if m:
            a = fr.env.get(m.group(1))
            if isinstance(a, tuple) and a and a[0] == "REF":
                fr.env[a[1]] = val
            return
        # field writes etc.: irrelevant to the protocol (no tracked data lives in fields)
        if contains(val, lambda x: x == VALUE or is_waker(x)):
            raise Unsupported("token stored into place %s" % dst)

    def rvalue(self, fr, rv):
        x = self.cfg.extra_rvalue(self, fr, rv)
        if x is not NotImplemented:
            return x
        if rv.startswith(("copy ", "move ", "const ")):
            m = re.match(r"^(copy|move) (.+?) as \w+ \(\w+\)$", rv)
            if m:
                return self.operand(fr, "%s %s" % (m.group(1), m.group(2)))
            return self.operand(fr, rv)
        m = re.match(r"^&(?:mut |raw const |raw mut )?(_\d+)$", rv)
        if m:
            return ("REF", m.group(1))
        m = re.match(r"^&(?:mut |raw const |raw mut )?\(\*(_\d+)\)$", rv)
        if m:
            return fr.env.get(m.group(1))
        if rv.startswith("&"):
            inner = re.sub(r"^&(?:mut |raw const |raw mut )?", "", rv)
            fref = self.field_ref(fr, inner)
            if fref is not None:
                return fref
            if re.match(r"^\(\((.+) as (\w+)\)\.(\d+): .*\)$", inner):
                return self.place_read(fr, inner)        # reference to a variant payload: aliased by value
            return None
        m = re.match(r"^discriminant\((.+)\)$", rv)
        if m:
            v = self.deref_alias(fr, self.place_read(fr, m.group(1)))
            if isinstance(v, tuple) and v and v[0] == "ENUM":
                return VARIANT_INDEX[v[1]]
            raise Unsupported("discriminant of untracked value %s = %r in %s" % (m.group(1), v, fr.func.short()))
        m = re.match(r"^(Eq|Ne|Lt|Le|Gt|Ge|BitAnd|BitOr|BitXor|Add|Sub|AddUnchecked|SubUnchecked)\((.+)\)$", rv)
        if m:
            a, b = [self.operand(fr, x) for x in M.split_top(m.group(2))]
            if not isinstance(a, int) or not isinstance(b, int):
                return None
            op = m.group(1)
            return {"Eq": int(a == b), "Ne": int(a != b), "Lt": int(a < b), "Le": int(a <= b), "Gt": int(a > b), "Ge": int(a >= b),
                    "BitAnd": a & b, "BitOr": a | b, "BitXor": a ^ b, "Add": (a + b) & 0xFF, "Sub": (a - b) & 0xFF,
                    "AddUnchecked": a + b, "SubUnchecked": a - b}[op]
        m = re.match(r"^Not\((.+)\)$", rv)
        if m:
            a = self.operand(fr, m.group(1))
            return None if not isinstance(a, int) else int(not a)
        m = re.match(r"^(?:std::sync::atomic::)?Ordering::(\w+)$", rv)
        if m and m.group(1) in ORDERINGS:
            return ("ORD", m.group(1))
        m = re.match(r"^(?:[A-Za-z_0-9:<>, '&()\[\]]+?)::(Some|None|Ok|Err|Ready|Pending)(?:\((.*)\))?$", rv)
        if m:
            args = [self.operand(fr, x) for x in M.split_top(m.group(2))] if m.group(2) else []
            return ("ENUM", m.group(1)) + tuple(args)
        m = re.match(r"^\((.*)\)$", rv)
        if m and "," in rv:
            return ("TUPLE",) + tuple(self.operand(fr, x) for x in M.split_top(m.group(1)))
        return None        # struct aggregates, arrays, casts of pointers, len(), ...

    # ----- running ------------------------------------------------------------------------
    def run(self, stack):
        """Runs silently from the current point. Returns one of
        ('VIS', stack, op)        stack is positioned AT the block whose terminator is the visible op
        ('RET', value)            top-level return
        ('PANIC', info)
        """
        guard = 0
        while True:
            guard += 1
            if guard > 10000:
                raise Unsupported("silent loop without visible operation in %s" % stack[-1].func.short())
            fr = stack[-1]
            blk = fr.func.blocks[fr.bb]
            for (text, line) in blk.stmts:
                self.stmt(fr, text)
            term, line = blk.term
            r = self.terminator(stack, term, line)
            if r is not None:
                return r

    def stmt(self, fr, text):
        if text.startswith(("StorageLive", "StorageDead", "nop", "FakeRead", "AscribeUserType", "PlaceMention", "Retag", "Coverage", "ConstEvalCounter")):
            return
        m = re.match(r"^(.+?) = (.+);$", text)
        if m:
            self.assign(fr, m.group(1).strip(), m.group(2).strip())
            return
        if text.startswith(("Deinit(", "SetDiscriminant", "discriminant(", "Assume(", "assume(")):
            return
        raise Unsupported("statement %r in %s" % (text, fr.func.short()))

    def goto(self, stack, bb):
        stack[-1].bb = bb
        return None

    def terminator(self, stack, term, line):
        fr = stack[-1]
        m = re.match(r"^goto -> (bb\d+);$", term)
        if m:
            return self.goto(stack, m.group(1))
        m = re.match(r"^switchInt\((.+?)\) -> \[(.*)\];$", term)
        if m:
            v = self.operand(fr, m.group(1))
            if not isinstance(v, int):
                raise Unsupported("switchInt on untracked value %s in %s @%s" % (m.group(1), fr.func.short(), line))
            tgt = None
            other = None
            for part in m.group(2).split(", "):
                k, b = part.split(": ")
                if k == "otherwise":
                    other = b
                elif int(k) == v:
                    tgt = b
            return self.goto(stack, tgt or other)
        if term == "return;":
            val = fr.env.get("_0")
            # tokens left behind in locals other than _0 are leaked (mem::forget) - MIR would have
            # dropped them explicitly, so nothing to do.
            stack.pop()
            if not stack:
                objs = {k: v for k, v in fr.env.items() if k.startswith("@")}
                if objs:
                    return ("RET", ("WITHOBJ", val, freeze(objs)))
                return ("RET", val)
            caller = stack[-1]
            if fr.dst:
                caller.env[fr.dst] = val
            caller.bb = fr.ret_bb
            return None
        if term in ("unreachable;", "resume;", "abort;"):
            return ("PANIC", "%s in %s" % (term, fr.func.short()))
        m = re.match(r"^drop\((.+?)\) -> (?:\[return: (bb\d+), unwind[^\]]*\]|(bb\d+));$", term)
        if m:
            nxt = m.group(2) or m.group(3)
            v = self.place_read(fr, m.group(1))
            if isinstance(v, tuple) and v and v[0] == "OBJ" or contains(v, lambda x: isinstance(x, tuple) and x and x[0] == "OBJ"):
                raise Unsupported("drop of an endpoint object inside %s @%s (nested Drop impl not interpreted)" % (fr.func.short(), line))
            if contains(v, is_waker):
                return ("VIS", stack, dict(kind="DROP_WAKER", line=line, next_bb=nxt, place=m.group(1)))
            if contains(v, lambda x: x == VALUE):
                return ("VIS", stack, dict(kind="DROP_VALUE", line=line, next_bb=nxt, place=m.group(1)))
            hk = self.cfg.drop_hook(v)
            if hk is not None:
                hk = dict(hk)
                hk.update(line=line, next_bb=nxt, place=m.group(1))
                return ("VIS", stack, hk)
            dc = self.cfg.drop_call(v)
            if dc is not None:
                fn, env = dc
                if re.match(r"^_\d+$", m.group(1)):
                    fr.env[m.group(1)] = MOVED
                stack.append(Frame(fn, dict(env), "bb0", None, nxt))
                return None
            return self.goto(stack, nxt)
        m = re.match(r"^assert\((.+?), .*\) -> \[success: (bb\d+), unwind[^\]]*\];$", term)
        if m:
            c = m.group(1).strip()
            neg = c.startswith("!")
            v = self.operand(fr, c.lstrip("!"))
            if isinstance(v, int) and bool(v) == neg:
                return ("PANIC", "assert failed in %s @%s" % (fr.func.short(), line))
            return self.goto(stack, m.group(2))
        m = re.match(r"^(.*\)) -> (?:\[return: (bb\d+), unwind[^\]]*\]|unwind [a-z]+|(bb\d+));$", term)
        if m:
            # `-> [return: bbN, unwind ..]` = returning call; `-> unwind continue` / `-> bbN` = diverging call
            head, ret_bb = m.group(1), m.group(2)
            # the argument list is the last balanced (...) group; the callee path may itself contain fn(..) types
            depth, i = 0, len(head) - 1
            while i >= 0:
                if head[i] == ")":
                    depth += 1
                elif head[i] == "(":
                    depth -= 1
                    if depth == 0:
                        break
                i -= 1
            if i <= 0:
                raise Unsupported("terminator %r in %s" % (term, fr.func.short()))
            args = head[i + 1:-1]
            pre = head[:i]
            md = re.match(r"^(_\d+|\(\*_\d+\)|\(.+?\)) = (.+)$", pre)
            dst, callee = (md.group(1), md.group(2).strip()) if md else (None, pre.strip())
            return self.call(stack, dst.strip() if dst else None, callee, M.split_top(args) if args.strip() else [], ret_bb, line)
        raise Unsupported("terminator %r in %s" % (term, fr.func.short()))

    def call(self, stack, dst, callee, args, ret_bb, line):
        fr = stack[-1]
        if ret_bb is None:        # diverging call: panic machinery
            return ("PANIC", "%s in %s @%s" % (callee.split("::")[-1], fr.func.short(), line))
        vals = [self.operand(fr, x) for x in args]      # evaluated once (moves mark their source)
        a = re.search(r"Atomic::<(?:u8|usize|u32|u64|bool)>::(\w+)$", callee) or re.search(r"Atomic(?:U8|Usize|U32|U64|Bool)::(\w+)$", callee)
        if a:
            op = a.group(1)
            ords = [v[1] for v in vals if isinstance(v, tuple) and v and v[0] == "ORD"]
            ints = [v for v in vals[1:] if isinstance(v, int)]
            need = {"load": (0, 1), "store": (1, 1), "swap": (1, 1), "fetch_add": (1, 1), "fetch_sub": (1, 1), "fetch_and": (1, 1), "fetch_or": (1, 1),
                    "compare_exchange": (2, 2), "compare_exchange_weak": (2, 2)}.get(op)
            if need is None or len(ints) != need[0] or len(ords) != need[1]:
                raise Unsupported("atomic %s with untracked operands %r in %s @%s" % (op, vals, fr.func.short(), line))
            loc = self.cfg.atomic_loc_of(fr, args[0])
            d = dict(kind="ATOMIC", op=op.replace("_weak", ""), ints=ints, ords=ords, loc=loc, line=line, next_bb=ret_bb, dst=dst)
            dom = getattr(self.cfg, "atomic_domain", None)
            if dom is not None and dom(loc) is not None:
                d["domain"] = list(dom(loc))      # values outside it are flagged "out of the modelled range" by the encoder
            return ("VIS", stack, d)
        if re.search(r"(^|::)fence$", callee):
            v = vals[0]
            if not (isinstance(v, tuple) and v[0] == "ORD"):
                raise Unsupported("fence with untracked ordering @%s" % (line,))
            return ("VIS", stack, dict(kind="FENCE", ord=v[1], line=line, next_bb=ret_bb, dst=dst))
        if re.search(r"(^|::)spin_loop$", callee):
            return ("VIS", stack, dict(kind="SPIN", line=line, next_bb=ret_bb, dst=dst))
        cell = None
        if re.search(r"MaybeUninit<(?:std::task::)?Waker>|MaybeUninit::<(?:std::task::)?Waker>", callee):
            cell = "awaiter"
        elif re.search(r"MaybeUninit<T>|MaybeUninit::<T>", callee):
            cell = "value"
        if cell and re.search(r"::(write|assume_init_read|assume_init_drop|assume_init)$", callee):
            act = callee.rsplit("::", 1)[1]
            if act == "write":
                return ("VIS", stack, dict(kind="CELL", cell=cell, act="write", val=vals[1], line=line, next_bb=ret_bb, dst=dst))
            return ("VIS", stack, dict(kind="CELL", cell=cell, act={"assume_init_read": "take", "assume_init": "take", "assume_init_drop": "drop"}[act],
                                       line=line, next_bb=ret_bb, dst=dst))
        if re.search(r"<(?:std::task::)?Waker as (?:std::clone::)?Clone>::clone$", callee):
            v = self.deref_alias(fr, vals[0])
            if isinstance(v, tuple) and v and v[0] == "WAKERREF":
                return ("VIS", stack, dict(kind="CLONE", waker=v[1], line=line, next_bb=ret_bb, dst=dst))
            ev = self.cfg.extra_visible(callee, args, fr, [self.deref_alias(fr, x) for x in vals])
            if ev is None:
                raise Unsupported("clone of untracked waker @%s: %r" % (line, v))
            ev = dict(ev)
            ev.update(line=line, next_bb=ret_bb, dst=dst)
            return ("VIS", stack, ev)
        if re.search(r"(^|::)Waker::wake$", callee):
            v = vals[0]
            if not is_waker(v):
                raise Unsupported("wake of untracked waker @%s: %r" % (line, v))
            return ("VIS", stack, dict(kind="WAKE", line=line, next_bb=ret_bb, dst=dst, consume=True, held=v))
        if re.search(r"(^|::)Waker::wake_by_ref$", callee):
            v = self.deref_alias(fr, vals[0])
            return ("VIS", stack, dict(kind="WAKE", line=line, next_bb=ret_bb, dst=dst, consume=False, held=v))
        if re.match(r"^std::mem::drop::<", callee):
            v = vals[0]
            if contains(v, is_waker):
                return ("VIS", stack, dict(kind="DROP_WAKER", line=line, next_bb=ret_bb, place="-", dst=dst))
            hk = self.cfg.drop_hook(v)
            if hk is not None:
                hk = dict(hk)
                hk.update(line=line, next_bb=ret_bb, place="-", dst=dst)
                return ("VIS", stack, hk)
            return self.goto(stack, ret_bb)
        ev = self.cfg.extra_visible(callee, args, fr, [self.deref_alias(fr, v) for v in vals])
        if ev is not None:
            ev = dict(ev)
            ev.update(line=line, next_bb=ret_bb, dst=dst)
            return ("VIS", stack, ev)
        if self.cfg.extra_call(self, callee, vals, fr, dst):
            return self.goto(stack, ret_bb)
        fn = self.cfg.resolve_local(callee)
        if fn is not None:
            env = {}
            for p, x in zip(fn.params, vals):
                # a reference to a caller-local task context is passed by value (contexts are immutable tokens)
                if isinstance(x, tuple) and x and x[0] == "REF" and isinstance(fr.env.get(x[1]), tuple) and fr.env[x[1]] and fr.env[x[1]][0] in ("CONTEXT", "MCONTEXT", "TUPLE"):
                    x = fr.env[x[1]]
                env[p] = x
            stack.append(Frame(fn, env, "bb0", dst, ret_bb))
            return None
        if "Result::<u8, u8>::is_ok" in callee or "Result::<u8, u8>::is_err" in callee:
            v = self.deref_alias(fr, vals[0])
            if not (isinstance(v, tuple) and v[0] == "ENUM"):
                raise Unsupported("is_ok on untracked value @%s" % (line,))
            r = int(v[1] == "Ok") if callee.endswith("is_ok") else int(v[1] == "Err")
            fr.env[dst] = r
            return self.goto(stack, ret_bb)
        if any(p in callee for p in PURE_NONE) or any(p in callee for p in self.cfg.extra_pure):
            if dst:
                fr.env[dst] = None
            return self.goto(stack, ret_bb)
        if any(p in callee for p in PURE_PASS_ARG0):
            v = vals[0] if vals else None
            if dst:
                fr.env[dst] = v
            return self.goto(stack, ret_bb)
        raise Unsupported("unknown callee %s in %s @%s" % (callee, fr.func.short(), line))


class Node:
    def __init__(self, nid, op):
        self.id = nid
        self.op = op          # dict(kind=..., ...)
        self.succ = {}        # result value (or None) -> node id | ('END', retval) | ('PANIC', info)

    def __repr__(self):
        return "N%d %s -> %s" % (self.id, {k: v for k, v in self.op.items() if k not in ("next_bb", "dst", "argvals")}, self.succ)


def result_domain(op):
    if op["kind"] == "ATOMIC":
        if op["op"] == "store":
            return [None]
        if op.get("domain") is not None and op["op"] != "compare_exchange":
            return list(op["domain"])
        if op["op"] == "compare_exchange":
            exp = op["ints"][0]
            return [("ENUM", "Ok", exp)] + [("ENUM", "Err", v) for v in STATE_DOMAIN if v != exp]
        return list(STATE_DOMAIN)
    if op["kind"] == "CELL" and op["act"] == "take":
        return ["TOKEN"]
    if op["kind"] == "CLONE":
        return ["TOKEN"]
    if op.get("results") is not None:
        return list(op["results"])
    return [None]


class Builder:
    """Builds the automaton of one function call (entry function + arguments)."""

    def __init__(self, interp):
        self.interp = interp
        self.nodes = []
        self.memo = {}

    def key(self, stack):
        return tuple(f.key(i == len(stack) - 1) for i, f in enumerate(stack))

    def start(self, func, args_env):
        stack = [Frame(func, dict(args_env))]
        return self.explore(stack)

    def explore(self, stack):
        r = self.interp.run(stack)
        if r[0] == "RET":
            return ("END", r[1])
        if r[0] == "PANIC":
            return ("PANIC", r[1])
        _, stack, op = r
        k = (self.key(stack), op["kind"], op.get("line"))
        if k in self.memo:
            return self.memo[k]
        node = Node(len(self.nodes), op)
        self.nodes.append(node)
        self.memo[k] = node.id
        for res in result_domain(op):
            st = [f.copy() for f in stack]
            fr = st[-1]
            val = res
            if op["kind"] == "CELL" and op["act"] == "take":
                val = VALUE if op["cell"] == "value" else waker("cell")
            if op["kind"] == "CLONE":
                val = waker(op["waker"])
            if op.get("result_value") is not None and res in op["result_value"]:
                val = op["result_value"][res]
            if op["kind"] in ("DROP_WAKER", "DROP_VALUE"):
                m = re.match(r"^(_\d+)$", op["place"])
                if m:
                    fr.env[op["place"]] = MOVED
            if op.get("dst"):
                fr.env[op["dst"]] = val
            fr.bb = op["next_bb"]
            node.succ[res] = self.explore(st)
        return node.id
