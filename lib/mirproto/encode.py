"""Bounded interleaving model of per-thread visible-step automata -> z3.

State is unrolled over k global steps. `sched[i]` (which thread moves) and `rp[i]` (which message a
load reads) are solver variables. Memory model: one atomic location with a message history
(value, release view); a load may read any message not older than the thread's view of the location
(RMWs read the latest); acquire joins the message's release view into the thread's vector clock,
relaxed loads park it for a later acquire fence; release stores / RMWs publish the thread's clock
(relaxed ones only what a preceding release fence recorded; RMWs continue release sequences).
Non-atomic cells and the storage release are checked for happens-before with vector clocks."""
import z3

BV8 = lambda v: z3.BitVecVal(v, 8)
USE_BV = True          # clocks / counters / pcs as 8-bit vectors (SAT) instead of mathematical integers (LIA)
NBITS = 8
END = (1 << NBITS) - 1 if USE_BV else -1


def NUM(name):
    return z3.BitVec(name, NBITS) if USE_BV else z3.Int(name)


def N(v):
    return z3.BitVecVal(v, NBITS) if USE_BV else z3.IntVal(v)


def gt(a, b):
    return z3.UGT(a, b) if USE_BV else a > b


def ge(a, b):
    return z3.UGE(a, b) if USE_BV else a >= b

BAD_PANIC, BAD_CELL, BAD_AFTER_RELEASE, BAD_WAKER, BAD_RANGE, BAD_OUTCOME = 1, 2, 3, 4, 5, 6
BAD_NAMES = {1: "panic/unreachable arm reached", 2: "payload or waker cell used in the wrong state (uninitialised read / overwrite)",
             3: "event memory accessed after the storage was released", 4: "waker bookkeeping (two wakers in hand / wake without waker)",
             5: "state byte outside the modelled domain", 6: "receiver outcome contradicts what the sender did"}
RACE_CELL, RACE_RELEASE = 1, 2
LOCAL_KINDS = ("NOP", "CLONE", "WAKE", "DROP_WAKER", "DROP_VALUE", "FENCE", "SPIN")


def mx(a, b):
    return z3.If(ge(a, b), a, b)


class St:
    """Symbolic state at one step."""
    STALE = False

    def __init__(self, i, T, cells, locs=("state",), awaiters=0, nops=0):
        n = lambda s: "%s@%d" % (s, i)
        self.T = T
        self.locs = locs
        self.nA = awaiters
        self.nops = nops
        self.curL = {l: z3.BitVec(n("cur_" + l), 8) for l in locs}
        self.RVL = {l: [NUM(n("RV_%s_%d" % (l, u))) for u in range(T)] for l in locs}
        # mutex
        self.mfree = z3.Bool(n("mfree"))
        self.MV = [NUM(n("MV%d" % u)) for u in range(T)]
        # abstract awaiter set (guarded by the mutex)
        self.reg = [z3.Bool(n("reg%d" % a)) for a in range(awaiters)]
        self.ordr = [NUM(n("ord%d" % a)) for a in range(awaiters)]
        self.wk = [z3.BitVec(n("wk%d" % a), 8) for a in range(awaiters)]
        self.gen = [NUM(n("gen%d" % a)) for a in range(awaiters)]
        self.lastw = [z3.BitVec(n("lastw%d" % a), 8) for a in range(awaiters)]
        self.regstep = [NUM(n("regstep%d" % a)) for a in range(awaiters)]
        self.seq = NUM(n("seq"))
        self.setgen = NUM(n("setgen"))
        # per logical operation: invocation / response step, result, status
        self.inv = [NUM(n("inv%d" % o)) for o in range(nops)]
        self.resp = [NUM(n("resp%d" % o)) for o in range(nops)]
        self.res = [z3.BitVec(n("res%d" % o), 8) for o in range(nops)]
        self.status = [z3.BitVec(n("status%d" % o), 8) for o in range(nops)]   # 0 not started, 1 running, 2 completed, 3 cancelled
        self.pc = [NUM(n("pc%d" % t)) for t in range(T)]
        self.hlen = z3.Int(n("hlen"))
        self.HV = z3.Array(n("HV"), z3.IntSort(), z3.BitVecSort(8))
        self.HR = [z3.Array(n("HR%d" % u), z3.IntSort(), z3.IntSort()) for u in range(T)]
        self.vpos = [z3.Int(n("vpos%d" % t)) for t in range(T)]
        self.cur = None
        self.C = [[NUM(n("C%d_%d" % (t, u))) for u in range(T)] for t in range(T)]
        self.P = [[NUM(n("P%d_%d" % (t, u))) for u in range(T)] for t in range(T)]
        self.FR = [[NUM(n("FR%d_%d" % (t, u))) for u in range(T)] for t in range(T)]
        self.A = [NUM(n("A%d" % t)) for t in range(T)]
        self.CW = {c: [NUM(n("CW_%s_%d" % (c, t))) for t in range(T)] for c in cells}
        self.init = {c: z3.Bool(n("init_" + c)) for c in cells}
        self.aw_id = z3.BitVec(n("aw_id"), 8)
        self.hand = [z3.BitVec(n("hand%d" % t), 8) for t in range(T)]
        self.cnt = {k: NUM(n(k)) for k in ("written", "delivered", "vdrops", "clones", "wdrops", "released")}
        self.woken = z3.BitVec(n("woken"), 8)
        self.bad = NUM(n("bad"))
        self.race = NUM(n("race"))
        self.last_pending = z3.BitVec(n("last_pending"), 8)
        self.outcome = z3.BitVec(n("outcome"), 8)
        self.recv_gone = z3.Bool(n("recv_gone"))
        self.sender_done = z3.Bool(n("sender_done"))

    def fields(self):
        d = {}
        for t in range(self.T):
            d["pc%d" % t] = self.pc[t]
            d["A%d" % t] = self.A[t]
            d["hand%d" % t] = self.hand[t]
            for u in range(self.T):
                d["C%d_%d" % (t, u)] = self.C[t][u]
                d["P%d_%d" % (t, u)] = self.P[t][u]
                d["FR%d_%d" % (t, u)] = self.FR[t][u]
        if St.STALE:
            d["hlen"] = self.hlen
            d["HV"] = self.HV
            for u in range(self.T):
                d["HR%d" % u] = self.HR[u]
            for t in range(self.T):
                d["vpos%d" % t] = self.vpos[t]
        else:
            for l in self.locs:
                d["cur_" + l] = self.curL[l]
                for u in range(self.T):
                    d["RV_%s_%d" % (l, u)] = self.RVL[l][u]
        d["mfree"] = self.mfree
        for u in range(self.T):
            d["MV%d" % u] = self.MV[u]
        for a in range(self.nA):
            d["reg%d" % a] = self.reg[a]
            d["ord%d" % a] = self.ordr[a]
            d["wk%d" % a] = self.wk[a]
            d["gen%d" % a] = self.gen[a]
            d["lastw%d" % a] = self.lastw[a]
            d["regstep%d" % a] = self.regstep[a]
        if self.nA:
            d["seq"] = self.seq
            d["setgen"] = self.setgen
        for o in range(self.nops):
            d["inv%d" % o] = self.inv[o]
            d["resp%d" % o] = self.resp[o]
            d["res%d" % o] = self.res[o]
            d["status%d" % o] = self.status[o]
        for c in self.CW:
            for t in range(self.T):
                d["CW_%s_%d" % (c, t)] = self.CW[c][t]
            d["init_" + c] = self.init[c]
        d["aw_id"] = self.aw_id
        for k, v in self.cnt.items():
            d[k] = v
        for k in ("woken", "bad", "race", "last_pending", "outcome", "recv_gone", "sender_done"):
            d[k] = getattr(self, k)
        return d


class Work:
    """Mutable copy of a state's expressions while one node's effect is applied."""

    def __init__(self, S):
        self.S = S
        self.f = dict(S.fields())

    def g(self, k):
        return self.f[k]

    def s(self, k, v):
        self.f[k] = v

    def flag_bad(self, cond, code):
        self.f["bad"] = z3.If(z3.And(self.f["bad"] == N(0), cond), N(code), self.f["bad"])

    def flag_race(self, cond, code):
        self.f["race"] = z3.If(z3.And(self.f["race"] == N(0), cond), N(code), self.f["race"])


class Encoder:
    def __init__(self, threads, k, cells=("value", "awaiter"), stale_reads=False, locs=("state",), awaiters=0, nops=0, init_vals=None):
        """threads: list of dict(nodes={id: node}, entry=id). node = dict(op=..., succ={key: target})."""
        self.threads = threads
        self.T = len(threads)
        self.k = k
        self.cells = cells
        self.stale = stale_reads
        St.STALE = stale_reads
        self.locs, self.nA, self.nops = tuple(locs), awaiters, nops
        self.init_vals = init_vals or {}
        self.S = [St(i, self.T, cells, self.locs, awaiters, nops) for i in range(k + 1)]
        self.sched = [NUM("sched@%d" % i) for i in range(k)]
        self.rp = [z3.Int("rp@%d" % i) for i in range(k)]
        self.solver = z3.Then("simplify", "propagate-values", "solve-eqs", "bit-blast", "sat").solver() if USE_BV else z3.Solver()
        self.n_assert = 0

    def add(self, *cs):
        for c in cs:
            self.solver.add(c)
            self.n_assert += 1

    # ----- memory model pieces ---------------------------------------------------------------
    def tick(self, w, t):
        w.s("C%d_%d" % (t, t), w.g("C%d_%d" % (t, t)) + N(1))

    def touch_event(self, w, t):
        """any access to event memory (atomic or cell)"""
        self.tick(w, t)
        w.s("A%d" % t, w.g("C%d_%d" % (t, t)))
        w.flag_bad(gt(w.g("released"), N(0)), BAD_AFTER_RELEASE)

    def acquire(self, w, t, view, ordering):
        for u in range(self.T):
            if ordering in ("Acquire", "AcqRel", "SeqCst"):
                w.s("C%d_%d" % (t, u), mx(w.g("C%d_%d" % (t, u)), view[u]))
            else:
                w.s("P%d_%d" % (t, u), mx(w.g("P%d_%d" % (t, u)), view[u]))

    def append_msg(self, w, t, value, ordering, rmw, prev_view, loc="state"):
        """append a message; its release view per the ordering"""
        rvs = []
        for u in range(self.T):
            if ordering in ("Release", "AcqRel", "SeqCst"):
                own = w.g("C%d_%d" % (t, u))
            else:
                own = w.g("FR%d_%d" % (t, u))
            rvs.append(mx(prev_view[u], own) if rmw else own)
        if not self.stale:
            w.s("cur_" + loc, value)
            for u in range(self.T):
                w.s("RV_%s_%d" % (loc, u), rvs[u])
            return
        pos = w.g("hlen")
        for u in range(self.T):
            w.s("HR%d" % u, z3.Store(w.g("HR%d" % u), pos, rvs[u]))
        w.s("HV", z3.Store(w.g("HV"), pos, value))
        w.s("hlen", pos + 1)
        w.s("vpos%d" % t, pos)

    def read_msg(self, w, t, i, latest, loc="state"):
        """returns (position, value, view) of the message read"""
        if not self.stale:
            return None, w.g("cur_" + loc), [w.g("RV_%s_%d" % (loc, u)) for u in range(self.T)]
        last = w.g("hlen") - 1
        if latest or not self.stale:
            pos = last
        else:
            pos = self.rp[i]
        val = z3.Select(w.g("HV"), pos)
        view = [z3.Select(w.g("HR%d" % u), pos) for u in range(self.T)]
        return pos, val, view

    # ----- one node ---------------------------------------------------------------------------
    def effect(self, t, node, S, i):
        """returns (Work with updated fields, next_pc expr, extra side constraints list)"""
        w = Work(S)
        op = node["op"]
        kind = op["kind"]
        side = []
        succ = node["succ"]

        def tgt(x):
            if x == "END":
                return N(END)
            if isinstance(x, tuple) and x[0] == "PANIC":
                return None
            return N(x)

        nxt = None
        if kind == "ATOMIC":
            self.touch_event(w, t)
            a = op["op"]
            loc = op.get("loc", "state")
            if a == "load":
                pos, val, view = self.read_msg(w, t, i, latest=False, loc=loc)
                if self.stale:
                    side.append(z3.And(self.rp[i] >= S.vpos[t], self.rp[i] <= S.hlen - 1))
                if self.stale:
                    w.s("vpos%d" % t, pos)
                self.acquire(w, t, view, op["ords"][0])
                res = val
                nxt = self.branch_int(w, succ, res)
            elif a == "store":
                self.append_msg(w, t, BV8(op["ints"][0]), op["ords"][0], False, None, loc=loc)
                nxt = self.single(w, succ)
            elif a in ("swap", "fetch_add", "fetch_sub", "fetch_and", "fetch_or"):
                pos, val, view = self.read_msg(w, t, i, latest=True, loc=loc)
                self.acquire(w, t, view, op["ords"][0])
                arg = BV8(op["ints"][0])
                new = {"swap": arg, "fetch_add": val + arg, "fetch_sub": val - arg, "fetch_and": val & arg, "fetch_or": val | arg}[a]
                self.append_msg(w, t, new, op["ords"][0], True, view, loc=loc)
                w.last_val = val
                nxt = self.branch_int(w, succ, val)
            elif a == "compare_exchange":
                exp, new = op["ints"]
                so, fo = op["ords"]
                pos, val, view = self.read_msg(w, t, i, latest=True, loc=loc)
                ok = val == BV8(exp)
                ws = Work(S)
                ws.f = dict(w.f)
                self.acquire(ws, t, view, so)
                self.append_msg(ws, t, BV8(new), so, True, view, loc=loc)
                wf = Work(S)
                wf.f = dict(w.f)
                self.acquire(wf, t, view, fo)
                if self.stale:
                    wf.s("vpos%d" % t, pos)
                for key in ws.f:
                    if ws.f[key] is not wf.f[key]:
                        w.f[key] = z3.If(ok, ws.f[key], wf.f[key])
                nxt = self.branch_cas(w, succ, val, exp)
            else:
                raise ValueError("atomic op " + a)
            latest = z3.Select(w.g("HV"), w.g("hlen") - 1) if self.stale else w.g("cur_" + loc)
            w.flag_bad(z3.UGE(latest, BV8(8)), BAD_RANGE)
        elif kind == "FENCE":
            self.tick(w, t)
            if op["ord"] in ("Acquire", "AcqRel", "SeqCst"):
                for u in range(self.T):
                    w.s("C%d_%d" % (t, u), mx(w.g("C%d_%d" % (t, u)), w.g("P%d_%d" % (t, u))))
            if op["ord"] in ("Release", "AcqRel", "SeqCst"):
                for u in range(self.T):
                    w.s("FR%d_%d" % (t, u), w.g("C%d_%d" % (t, u)))
            nxt = self.single(w, succ)
        elif kind == "SPIN":
            self.tick(w, t)
            nxt = self.single(w, succ)
        elif kind == "CELL":
            c = op["cell"]
            # happens-before with every other thread's last access to this cell
            for o in range(self.T):
                if o != t:
                    w.flag_race(gt(w.g("CW_%s_%d" % (c, o)), w.g("C%d_%d" % (t, o))), RACE_CELL)
            self.touch_event(w, t)
            w.s("CW_%s_%d" % (c, t), w.g("C%d_%d" % (t, t)))
            ini = w.g("init_" + c)
            if op["act"] == "write":
                w.flag_bad(ini, BAD_CELL)
                w.s("init_" + c, z3.BoolVal(True))
                if c == "value":
                    w.s("written", w.g("written") + N(1))
                else:
                    w.flag_bad(w.g("hand%d" % t) == 0, BAD_WAKER)
                    w.s("aw_id", w.g("hand%d" % t))
                    w.s("hand%d" % t, BV8(0))
            elif op["act"] == "take":
                w.flag_bad(z3.Not(ini), BAD_CELL)
                w.s("init_" + c, z3.BoolVal(False))
                if c == "awaiter":
                    w.flag_bad(w.g("hand%d" % t) != 0, BAD_WAKER)
                    w.s("hand%d" % t, w.g("aw_id"))
            else:  # drop in place
                w.flag_bad(z3.Not(ini), BAD_CELL)
                w.s("init_" + c, z3.BoolVal(False))
                if c == "value":
                    w.s("vdrops", w.g("vdrops") + N(1))
                else:
                    w.s("wdrops", w.g("wdrops") + N(1))
            nxt = self.single(w, succ)
        elif kind == "CLONE":
            self.tick(w, t)
            w.flag_bad(w.g("hand%d" % t) != 0, BAD_WAKER)
            w.s("hand%d" % t, BV8(op["waker"]))
            w.s("clones", w.g("clones") + N(1))
            nxt = self.single(w, succ)
        elif kind == "WAKE":
            self.tick(w, t)
            h = w.g("hand%d" % t)
            w.flag_bad(h == 0, BAD_WAKER)
            w.s("woken", w.g("woken") | (BV8(1) << h))
            if op.get("consume", True):
                w.s("wdrops", w.g("wdrops") + N(1))
                w.s("hand%d" % t, BV8(0))
            nxt = self.single(w, succ)
        elif kind == "DROP_WAKER":
            self.tick(w, t)
            w.flag_bad(w.g("hand%d" % t) == 0, BAD_WAKER)
            w.s("wdrops", w.g("wdrops") + N(1))
            w.s("hand%d" % t, BV8(0))
            nxt = self.single(w, succ)
        elif kind == "DROP_VALUE":
            self.tick(w, t)
            w.s("vdrops", w.g("vdrops") + N(1))
            nxt = self.single(w, succ)
        elif kind == "LOCK":
            # enabled only while the mutex is free (see build(): a thread at a LOCK node cannot be scheduled otherwise)
            if op.get("touch"):            # the mutex is reached through a field of the tracked shared object
                self.touch_event(w, t)
            else:
                self.tick(w, t)
            for u in range(self.T):
                w.s("C%d_%d" % (t, u), mx(w.g("C%d_%d" % (t, u)), w.g("MV%d" % u)))
            w.s("mfree", z3.BoolVal(False))
            nxt = self.single(w, succ)
        elif kind == "UNLOCK":
            self.tick(w, t)
            w.flag_bad(w.g("mfree"), BAD_CELL)
            for u in range(self.T):
                w.s("MV%d" % u, w.g("C%d_%d" % (t, u)))
            w.s("mfree", z3.BoolVal(True))
            nxt = self.single(w, succ)
        elif kind in ("SET_NOTIFY_ONE", "SET_NOTIFY_PRIOR"):
            # abstract FIFO awaiter set (contract of awaiter_set::AwaiterSet; release builds pick the head)
            self.tick(w, t)
            w.flag_bad(w.g("mfree"), BAD_CELL)          # must hold the mutex
            A_ = self.nA
            anyreg = z3.Or(*[w.g("reg%d" % a) for a in range(A_)]) if A_ else z3.BoolVal(False)
            # head = registered awaiter with the smallest order
            is_head = []
            for a in range(A_):
                is_head.append(z3.And(w.g("reg%d" % a), *[z3.Or(z3.Not(w.g("reg%d" % b)), ge(w.g("ord%d" % b), w.g("ord%d" % a))) for b in range(A_) if b != a]))
            fire = anyreg
            if kind == "SET_NOTIFY_PRIOR":
                head_old = z3.Or(*[z3.And(is_head[a], z3.Not(ge(w.g("gen%d" % a), w.g("setgen")))) for a in range(A_)]) if A_ else z3.BoolVal(False)
                fire = z3.And(anyreg, head_old)
            w.flag_bad(z3.And(fire, w.g("hand%d" % t) != 0), BAD_WAKER)
            newhand = w.g("hand%d" % t)
            for a in range(A_):
                sel = z3.And(fire, is_head[a])
                newhand = z3.If(sel, w.g("wk%d" % a), newhand)
                w.s("reg%d" % a, z3.And(w.g("reg%d" % a), z3.Not(sel)))
                # lifecycle := NOTIFIED (Release)
                l = "lc%d" % a
                w.s("cur_" + l, z3.If(sel, BV8(op["notified"]), w.g("cur_" + l)))
                for u in range(self.T):
                    w.s("RV_%s_%d" % (l, u), z3.If(sel, w.g("C%d_%d" % (t, u)), w.g("RV_%s_%d" % (l, u))))
            w.s("hand%d" % t, newhand)
            tn = self.target(w, succ[("ENUM", "None")])
            ts = self.target(w, succ[("ENUM", "Some", "TOKEN")])
            nxt = z3.If(fire, ts, tn)
        elif kind == "SET_IS_EMPTY":
            self.tick(w, t)
            w.flag_bad(w.g("mfree"), BAD_CELL)
            anyreg = z3.Or(*[w.g("reg%d" % a) for a in range(self.nA)]) if self.nA else z3.BoolVal(False)
            nxt = z3.If(anyreg, self.target(w, succ[0]), self.target(w, succ[1]))
        elif kind == "SET_REGISTER":
            self.tick(w, t)
            w.flag_bad(w.g("mfree"), BAD_CELL)
            a = op["awaiter"]
            l = "lc%d" % a
            h = w.g("hand%d" % t)
            w.flag_bad(h == 0, BAD_WAKER)
            already = w.g("cur_" + l) == BV8(op["waiting"])
            # re-registration replaces (drops) the stored waker; first registration appends at the tail
            w.s("wdrops", z3.If(already, w.g("wdrops") + N(1), w.g("wdrops")))
            w.s("wk%d" % a, h)
            w.s("hand%d" % t, BV8(0))
            w.s("ord%d" % a, z3.If(already, w.g("ord%d" % a), w.g("seq")))
            w.s("seq", z3.If(already, w.g("seq"), w.g("seq") + N(1)))
            w.s("gen%d" % a, z3.If(already, w.g("gen%d" % a), w.g("setgen")))
            w.s("regstep%d" % a, z3.If(already, w.g("regstep%d" % a), N(i)))
            w.s("reg%d" % a, z3.BoolVal(True))
            w.flag_bad(w.g("cur_" + l) == BV8(op["notified"]), BAD_CELL)      # documented precondition: not NOTIFIED
            for u in range(self.T):
                w.s("RV_%s_%d" % (l, u), z3.If(already, w.g("RV_%s_%d" % (l, u)), w.g("C%d_%d" % (t, u))))
            w.s("cur_" + l, BV8(op["waiting"]))
            nxt = self.single(w, succ)
        elif kind == "SET_UNREGISTER":
            self.tick(w, t)
            w.flag_bad(w.g("mfree"), BAD_CELL)
            a = op["awaiter"]
            l = "lc%d" % a
            waiting = w.g("cur_" + l) == BV8(op["waiting"])
            w.s("reg%d" % a, z3.And(w.g("reg%d" % a), z3.Not(waiting)))
            w.s("wdrops", z3.If(waiting, w.g("wdrops") + N(1), w.g("wdrops")))
            for u in range(self.T):
                w.s("RV_%s_%d" % (l, u), z3.If(waiting, w.g("C%d_%d" % (t, u)), w.g("RV_%s_%d" % (l, u))))
            w.s("cur_" + l, z3.If(waiting, BV8(op["idle"]), w.g("cur_" + l)))
            nxt = self.single(w, succ)
        elif kind == "SET_ADVANCE_GEN":
            self.tick(w, t)
            w.flag_bad(w.g("mfree"), BAD_CELL)
            w.s("setgen", w.g("setgen") + N(1))
            nxt = self.single(w, succ)
        elif kind == "RELEASE":
            for o in range(self.T):
                if o != t:
                    w.flag_race(gt(w.g("A%d" % o), w.g("C%d_%d" % (t, o))), RACE_RELEASE)
            self.tick(w, t)
            w.s("released", w.g("released") + N(1))
            nxt = self.single(w, succ)
        elif kind == "NOP":
            nxt = self.single(w, succ)
        elif kind == "TRYLOCK":                # Mutex::try_lock: never blocks; Ok(guard) iff the mutex is free
            self.tick(w, t)
            free = w.g("mfree")
            for u in range(self.T):
                w.s("C%d_%d" % (t, u), z3.If(free, mx(w.g("C%d_%d" % (t, u)), w.g("MV%d" % u)), w.g("C%d_%d" % (t, u))))
            w.s("mfree", z3.BoolVal(False))
            nxt = z3.If(free, self.target(w, succ["OK"]), self.target(w, succ["ERR"]))
        elif kind == "PARENT_DATA":            # Waker::data() of whatever waker the parent mutex holds
            self.tick(w, t)
            w.flag_bad(w.g("mfree"), BAD_CELL)
            nxt = N(END)
            known = []
            for wid, d in sorted(op["data_of"].items()):
                nxt = z3.If(w.g("aw_id") == BV8(wid), self.target(w, succ[d]), nxt)
                known.append(w.g("aw_id") == BV8(wid))
            w.flag_bad(z3.Not(z3.Or(*known)), BAD_RANGE)
        elif kind == "PARENT_WILL_WAKE":       # future_deque: does the waker stored in the parent mutex equal waker k?
            self.tick(w, t)
            w.flag_bad(w.g("mfree"), BAD_CELL)
            nxt = z3.If(w.g("aw_id") == BV8(op["waker"]), self.target(w, succ[1]), self.target(w, succ[0]))
        elif kind == "PARENT_STORE":           # clone_from(waker k) into the mutex-protected parent
            self.tick(w, t)
            w.flag_bad(w.g("mfree"), BAD_CELL)
            w.s("aw_id", BV8(op["waker"]))
            nxt = self.single(w, succ)
        elif kind == "PARENT_CLONE":           # clone of whatever waker the parent mutex holds
            self.tick(w, t)
            w.flag_bad(w.g("mfree"), BAD_CELL)
            w.flag_bad(w.g("hand%d" % t) != 0, BAD_WAKER)
            w.s("hand%d" % t, w.g("aw_id"))
            w.s("clones", w.g("clones") + N(1))
            nxt = self.single(w, succ)
        else:
            raise ValueError("node kind " + kind)
        gh = op.get("ghost") or {}
        for key, val in gh.items():
            if key == "last_pending":
                w.s("last_pending", BV8(val))
            elif key == "outcome":
                w.s("outcome", BV8(val))
            elif key == "recv_gone":
                w.s("recv_gone", z3.BoolVal(True))
            elif key == "sender_done":
                w.s("sender_done", z3.BoolVal(True))
            elif key == "delivered":
                w.s("delivered", w.g("delivered") + N(val))
            elif key == "vdrops":
                w.s("vdrops", w.g("vdrops") + N(val))
            elif key == "bad":
                w.flag_bad(z3.BoolVal(True), val)
            elif key == "inv":
                w.s("inv%d" % val, N(i))
                w.s("status%d" % val, z3.If(w.g("status%d" % val) == BV8(0), BV8(1), w.g("status%d" % val)))
            elif key == "resp":
                o_, status_, res_ = val
                w.s("resp%d" % o_, N(i))
                w.s("status%d" % o_, BV8(status_))
                if res_ is not None:
                    w.s("res%d" % o_, BV8(res_))
            elif key == "inv_if_nonzero":      # invocation stamp of op val, taken only when this RMW read a non-zero value
                hit = w.last_val != BV8(0)
                w.s("inv%d" % val, z3.If(hit, N(i), w.g("inv%d" % val)))
                w.s("status%d" % val, z3.If(z3.And(hit, w.g("status%d" % val) == BV8(0)), BV8(1), w.g("status%d" % val)))
            elif key == "stale_install":       # region_cached: a regional copy of generation val is stored while the latest generation differs
                w.s("recv_gone", z3.Or(w.g("recv_gone"), w.g("cur_latest") != BV8(val)))
            elif key == "stamp_hand":          # record which waker the thread holds at this step (res register of op val)
                w.s("res%d" % val, w.g("hand%d" % t))
            elif key == "lastw":
                a_, wid = val
                w.s("lastw%d" % a_, BV8(wid))
        return w, nxt, side

    def single(self, w, succ):
        (x,) = list(succ.values())
        return self.target(w, x)

    def target(self, w, x):
        if x == "END":
            return N(END)
        if isinstance(x, tuple) and x[0] == "PANIC":
            w.flag_bad(z3.BoolVal(True), BAD_PANIC)
            return N(END)
        return N(x)

    def branch_int(self, w, succ, val):
        e = None
        bad_cond = []
        items = sorted(succ.items(), key=lambda kv: kv[0])
        e = N(END)
        any_known = z3.BoolVal(False)
        for k_, x in reversed(items):
            if isinstance(x, tuple) and x[0] == "PANIC":
                bad_cond.append(val == BV8(k_))
                e = z3.If(val == BV8(k_), N(END), e)
            else:
                e = z3.If(val == BV8(k_), N(END) if x == "END" else N(x), e)
        known = z3.Or(*[val == BV8(k_) for k_, _ in items])
        w.flag_bad(z3.Not(known), BAD_RANGE)
        if bad_cond:
            w.flag_bad(z3.Or(*bad_cond), BAD_PANIC)
        return e

    def branch_cas(self, w, succ, val, exp):
        e = N(END)
        bad_cond = []
        known = []
        for key, x in succ.items():
            # key = ('ENUM','Ok',exp) or ('ENUM','Err',v)
            c = (val == BV8(exp)) if key[1] == "Ok" else (val == BV8(key[2]))
            known.append(c)
            if isinstance(x, tuple) and x[0] == "PANIC":
                bad_cond.append(c)
            else:
                e = z3.If(c, N(END) if x == "END" else N(x), e)
        w.flag_bad(z3.Not(z3.Or(*known)), BAD_RANGE)
        if bad_cond:
            w.flag_bad(z3.Or(*bad_cond), BAD_PANIC)
        return e

    # ----- whole system ----------------------------------------------------------------------
    def build(self):
        S0 = self.S[0]
        T = self.T
        z = z3.IntVal(0)
        if self.stale:
            self.add(S0.hlen == 1, z3.Select(S0.HV, 0) == BV8(0))
            for u in range(T):
                self.add(z3.Select(S0.HR[u], 0) == 0)
            for t in range(T):
                self.add(S0.vpos[t] == 0)
        else:
            for l in self.locs:
                self.add(S0.curL[l] == BV8(self.init_vals.get(l, 0)))
                for u in range(T):
                    self.add(S0.RVL[l][u] == N(0))
        self.add(S0.mfree)
        for u in range(T):
            self.add(S0.MV[u] == N(0))
        for a in range(self.nA):
            self.add(z3.Not(S0.reg[a]), S0.ordr[a] == N(0), S0.wk[a] == BV8(0), S0.gen[a] == N(0), S0.lastw[a] == BV8(0), S0.regstep[a] == N(0))
        if self.nA:
            self.add(S0.seq == N(0), S0.setgen == N(1))
        for o in range(self.nops):
            self.add(S0.inv[o] == N(0), S0.resp[o] == N(END), S0.res[o] == BV8(0), S0.status[o] == BV8(0))
        for t in range(T):
            self.add(S0.pc[t] == N(self.threads[t]["entry"]), S0.A[t] == N(0), S0.hand[t] == BV8(0))
            for u in range(T):
                self.add(S0.C[t][u] == N(0), S0.P[t][u] == N(0), S0.FR[t][u] == N(0))
        for c in self.cells:
            self.add(z3.Not(S0.init[c]))
            for t in range(T):
                self.add(S0.CW[c][t] == N(0))
        for k_, v in S0.cnt.items():
            self.add(v == N(0))
        self.add(S0.aw_id == BV8(self.init_vals.get("aw_id", 0)), S0.woken == BV8(0), S0.bad == N(0), S0.race == N(0), S0.last_pending == BV8(0), S0.outcome == BV8(0),
                 z3.Not(S0.recv_gone), z3.Not(S0.sender_done))
        for i in range(self.k):
            a, b = self.S[i], self.S[i + 1]
            fa, fb = a.fields(), b.fields()
            self.add(z3.ULT(self.sched[i], N(T)) if USE_BV else z3.And(self.sched[i] >= 0, self.sched[i] < T))
            # next value of every field = ite-chain over the (thread, node) pairs that change it; the
            # guards (sched == t and pc[t] == node) are mutually exclusive; a finished thread stutters.
            updates = {key: [] for key in fa}
            for t in range(T):
                g = self.sched[i] == N(t)
                for nid, node in self.threads[t]["nodes"].items():
                    w, nxt, side = self.effect(t, node, a, i)
                    if node["op"]["kind"] == "LOCK":
                        side = side + [a.mfree]          # blocked while the mutex is held
                    if node["op"].get("await") is not None:      # blocking receive: schedulable only once the value is there
                        side = side + [a.curL[node["op"]["loc"]] == BV8(node["op"]["await"])]
                    w.f["pc%d" % t] = nxt
                    cond = z3.And(g, a.pc[t] == N(nid))
                    for key in fa:
                        if w.f[key] is not fa[key]:
                            updates[key].append((cond, w.f[key]))
                    if side:
                        self.add(z3.Implies(cond, z3.And(*side)))
            for key in fa:
                e = fa[key]
                for cond, val in reversed(updates[key]):
                    e = z3.If(cond, val, e)
                self.add(fb[key] == e)
            # --- schedule reductions (sound: they only remove schedules equivalent to a kept one) ---
            # (1) a finished thread is only scheduled (stutter) once every thread has finished
            all_done = z3.And(*[a.pc[t] == N(END) for t in range(T)])
            for t in range(T):
                self.add(z3.Implies(z3.And(self.sched[i] == N(t), a.pc[t] == N(END)), all_done))
            # (2) thread-local steps (ghost stamps, waker clone / wake / drop, fences, spin hints: they touch
            #     nothing another thread can observe) run immediately after the preceding step of the same thread
            if i > 0:
                for t in range(T):
                    local_ids = [nid for nid, node in self.threads[t]["nodes"].items() if node["op"]["kind"] in LOCAL_KINDS and not node["op"].get("late")]
                    if local_ids:
                        at_local = z3.Or(*[a.pc[t] == N(nid) for nid in local_ids])
                        self.add(z3.Implies(z3.And(self.sched[i - 1] == N(t), at_local), self.sched[i] == N(t)))

    def done(self):
        fin = self.S[self.k]
        return z3.And(*[fin.pc[t] == N(END) for t in range(self.T)])

    def final(self):
        return self.S[self.k]

    def check(self, *extra, timeout_s=None):
        self.solver.push()
        for e in extra:
            self.solver.add(e)
        if timeout_s:
            self.solver.set("timeout", int(timeout_s * 1000))
        r = self.solver.check()
        m = self.solver.model() if r == z3.sat else None
        self.solver.pop()
        return r, m

    def trace(self, m):
        """schedule as list of (thread, node id, op summary, read value/pos) from a model"""
        out = []
        for i in range(self.k):
            t = m.eval(self.sched[i], model_completion=True).as_long()
            pc = m.eval(self.S[i].pc[t], model_completion=True).as_long()
            if pc == END:
                continue
            node = self.threads[t]["nodes"][pc]
            op = node["op"]
            desc = op["kind"]
            if op["kind"] == "ATOMIC":
                desc = "%s(%s)%s" % (op["op"], ",".join(map(str, op["ints"])), "/".join(op["ords"]))
            elif op["kind"] == "CELL":
                desc = "%s %s" % (op["act"], op["cell"])
            elif op["kind"] == "FENCE":
                desc = "fence(%s)" % op["ord"]
            nxt_s = self.S[i + 1]
            last = m.eval(z3.Select(nxt_s.HV, nxt_s.hlen - 1) if self.stale else nxt_s.curL[self.locs[0]], model_completion=True).as_long()
            rp = m.eval(self.rp[i], model_completion=True).as_long() if (self.stale and op["kind"] == "ATOMIC" and op["op"] == "load") else None
            out.append(dict(step=i, thread=t, node=pc, op=desc, line=op.get("line"), state_after=last, read_pos=rp,
                            ghost=op.get("ghost")))
        return out
