"""MIR text dump -> function bodies (blocks, statements, terminators, local types, source lines).

The dump is produced on every run from /repo's current working tree by the nightly compiler
(`-Zunpretty=mir -Zmir-include-spans=yes`, debug assertions off = the release-profile code the
properties are stated for)."""
import collections
import os
import re
import shutil
import subprocess

VERIF = os.path.dirname(os.path.dirname(os.path.dirname(os.path.abspath(__file__))))
REPO = os.environ.get("FOLO_REPO", "/repo")
CACHE = os.path.join(os.environ.get("FOLO_VERIF_CACHE") or os.path.join(VERIF, ".cache"), "mir")


class Func:
    def __init__(self, name, sig):
        self.name = name
        self.sig = sig
        self.locals = {}      # '_3' -> type text
        self.blocks = collections.OrderedDict()   # 'bb3' -> Block
        self.params = []

    def short(self):
        return self.name.split(">::")[-1] if ">::" in self.name else self.name.split("::")[-1]


class Block:
    def __init__(self, name, cleanup):
        self.name = name
        self.cleanup = cleanup
        self.stmts = []       # (text, line)
        self.term = None      # (text, line)


RE_FN = re.compile(r"^fn (.+?)\((.*)\) -> (.+) \{$")
RE_LET = re.compile(r"^\s+let (?:mut )?(_\d+): (.*?);\s*(?://.*)?$")
RE_BB = re.compile(r"^\s+(bb\d+)( \(cleanup\))?: \{")
RE_SPAN = re.compile(r"// scope \d+ at ([^:]+):(\d+):\d+: \d+:\d+")
TERMINATOR_PREFIX = ("goto ", "switchInt(", "return;", "unreachable;", "resume;", "drop(", "assert(", "abort;", "falseEdge", "falseUnwind")


def dump(package, out_name=None):
    """Runs the nightly compiler on /repo/packages/<package> and returns the path of the MIR text."""
    os.makedirs(CACHE, exist_ok=True)
    out = os.path.join(CACHE, (out_name or package) + ".mir")
    tdir = os.path.join(CACHE, "target")
    # force a re-run of rustc for this crate without touching files under /repo
    fp = os.path.join(tdir, "debug", ".fingerprint")
    if os.path.isdir(fp):
        for d in os.listdir(fp):
            if d.startswith(package.replace("-", "_") + "-") or d.startswith(package + "-"):
                shutil.rmtree(os.path.join(fp, d), ignore_errors=True)
    env = dict(os.environ)
    env["CARGO_NET_OFFLINE"] = "true"
    env.pop("RUSTFLAGS", None)
    cmd = ["cargo", "+nightly", "rustc", "--offline", "--lib", "--target-dir", tdir, "--",
           "-Zunpretty=mir", "-Zmir-include-spans=yes", "-C", "debug-assertions=off", "-C", "overflow-checks=on"]
    p = subprocess.run(cmd, cwd=os.path.join(REPO, "packages", package), env=env, capture_output=True, text=True)
    if p.returncode != 0 or "fn " not in p.stdout:
        raise RuntimeError("MIR dump of %s failed (rc=%s): %s" % (package, p.returncode, p.stderr[-2000:]))
    with open(out, "w") as f:
        f.write(p.stdout)
    return out


def parse(path):
    funcs = {}
    cur = None
    blk = None
    with open(path, errors="replace") as f:
        for raw in f:
            ln = raw.rstrip("\n")
            if ln.startswith("fn ") and ln.endswith("{"):
                m = RE_FN.match(ln)
                if not m:
                    cur = None
                    continue
                name = m.group(1)
                # duplicate names (e.g. cfg variants): keep the first, suffix the others
                key = name
                n = 2
                while key in funcs:
                    key = "%s#%d" % (name, n)
                    n += 1
                cur = Func(key, ln)
                cur.params = [p.split(":")[0].strip() for p in split_top(m.group(2)) if p.strip()]
                for p in split_top(m.group(2)):
                    if ":" in p:
                        a, b = p.split(":", 1)
                        cur.locals[a.strip()] = b.strip()
                cur.locals["_0"] = m.group(3).strip()
                funcs[key] = cur
                blk = None
                continue
            if ln.startswith("const ") and ln.endswith("= {"):
                mp = re.match(r"^const (.+::promoted\[\d+\]): (.+) = \{$", ln)
                if mp:
                    cur = Func(mp.group(1), ln)
                    cur.locals["_0"] = mp.group(2).strip()
                    funcs.setdefault(mp.group(1), cur)
                    blk = None
                    continue
            if ln.endswith("= {") and not ln.startswith((" ", "fn ", "const ", "static ")):
                mp = re.match(r"^(.+\{constant#\d+\}): (.+) = \{$", ln)
                if mp:
                    cur = Func(mp.group(1), ln)
                    cur.locals["_0"] = mp.group(2).strip()
                    funcs.setdefault(mp.group(1), cur)
                    blk = None
                    continue
            if cur is None:
                continue
            if ln == "}":
                cur = None
                blk = None
                continue
            m = RE_LET.match(ln)
            if m and blk is None:
                cur.locals[m.group(1)] = m.group(2).strip()
                continue
            m = RE_BB.match(ln)
            if m:
                blk = Block(m.group(1), bool(m.group(2)))
                cur.blocks[blk.name] = blk
                continue
            if blk is not None:
                s = ln.strip()
                if s == "}":
                    blk = None
                    continue
                if not s or s.startswith("//") or s.startswith("+"):
                    continue
                text = s.split(" // ")[0].strip()
                sm = RE_SPAN.search(s)
                line = (os.path.basename(sm.group(1)), int(sm.group(2))) if sm else None
                if not text:
                    continue
                is_term = text.startswith(TERMINATOR_PREFIX) or "-> [return:" in text or "-> unwind" in text or text.endswith("-> unwind continue;") \
                    or re.search(r"\) -> (bb\d+|\[)", text) is not None
                if is_term:
                    blk.term = (text, line)
                else:
                    blk.stmts.append((text, line))
    return funcs


def split_top(s, sep=","):
    """Split on `sep` at nesting depth 0 of (), <>, [], {}."""
    out, depth, cur = [], 0, ""
    i = 0
    while i < len(s):
        c = s[i]
        if c in "(<[{":
            depth += 1
        elif c in ")>]}":
            # '->' inside types
            if c == ">" and i > 0 and s[i - 1] == "-":
                pass
            else:
                depth -= 1
        if c == sep and depth == 0:
            out.append(cur)
            cur = ""
        else:
            cur += c
        i += 1
    if cur.strip():
        out.append(cur)
    return [x.strip() for x in out]


def consts_from_source(path, prefix="EVENT_"):
    """`pub(crate) const EVENT_X: u8 = N;` table from a source file (values of named constants)."""
    out = {}
    with open(path) as f:
        for ln in f:
            m = re.match(r"\s*(?:pub(?:\([a-z]+\))?\s+)?const\s+([A-Z0-9_]+)\s*:\s*u8\s*=\s*(0b[01_]+|0x[0-9a-fA-F_]+|\d+)\s*;", ln)
            if m:
                out[m.group(1)] = int(m.group(2).replace("_", ""), 0)
    return out
