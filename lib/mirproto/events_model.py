"""events (auto-reset / manual-reset events): scenarios, wrappers, linearizability monitors (C08).

The protocol functions `EventInner::{set, reset, try_wait, poll_wait, drop_wait}` of auto.rs /
manual.rs and the lifecycle accessors `Awaiter::{take_notification, is_registered, is_notified}`
of awaiter_set come from the MIR dumps. The waiter list itself (`AwaiterSet::{register, unregister,
notify_one, is_empty, advance_generation, notify_one_prior_generation}`, an intrusive linked list
only ever touched under the event's mutex) is replaced by its contract - a FIFO with generations -
which the Kani harness suite `awaiter_set` checks against the real crate. The wait future's
`poll` / `drop` and the event's forwarding methods are modelled here and fingerprint-pinned."""
import itertools
import os
import re

from . import auto as A
from . import mir as M

GUARD = ("GUARD",)


def is_guard(v):
    return v == GUARD or (isinstance(v, tuple) and len(v) >= 3 and v[0] == "ENUM" and v[2] == GUARD)


def load(events_mir, awaiter_mir, repo, flavor):
    """flavor: 'auto' | 'manual'"""
    funcs = M.parse(events_mir)
    afuncs = M.parse(awaiter_mir)
    src = os.path.join(repo, "packages/events/src/%s.rs" % flavor)
    consts = {}
    for k, v in M.consts_from_source(src, prefix="").items():
        consts["%s::%s" % (flavor, k)] = v
    lc = M.consts_from_source(os.path.join(repo, "packages/awaiter_set/src/awaiter.rs"), prefix="")
    for k in ("IDLE", "WAITING", "NOTIFIED"):
        if k not in lc:
            raise A.Unsupported("awaiter lifecycle constant %s not found" % k)
        consts["awaiter::" + k] = lc[k]

    def find(name):
        c = [f for k, f in funcs.items() if re.search(r"^%s::<impl at [^>]*%s\.rs:\d+:\d+: \d+:\d+>::%s$" % (flavor, flavor, re.escape(name)), k)
             and "EventInner" in f.sig.split("->")[0]]
        if len(c) != 1:
            raise A.Unsupported("function %s::EventInner::%s not found exactly once (%d)" % (flavor, name, len(c)))
        return c[0]

    def find_awaiter(name):
        c = [f for k, f in afuncs.items() if re.search(r"^awaiter::<impl at [^>]*awaiter\.rs:\d+:\d+: \d+:\d+>::%s$" % re.escape(name), k)]
        if len(c) != 1:
            raise A.Unsupported("Awaiter::%s not found exactly once in awaiter_set MIR (%d)" % (name, len(c)))
        return c[0]

    def resolve(callee):
        m = re.match(r"^%s::EventInner::(\w+)$" % flavor, callee)
        if m:
            return find(m.group(1))
        m = re.match(r"^Awaiter::(take_notification|is_registered|is_notified)$", callee)
        if m:
            return find_awaiter(m.group(1))
        return None

    def atomic_loc_of(fr, arg):
        if fr.func.name.startswith("awaiter::"):
            v = fr.env.get("_1")
            if isinstance(v, tuple) and v and v[0] == "AWAITER":
                return "lc%d" % v[1]
            raise A.Unsupported("awaiter lifecycle access through an untracked awaiter in %s" % fr.func.short())
        return "state"

    def awaiter_of(v):
        if isinstance(v, tuple) and v and v[0] == "AWAITER":
            return v[1]
        raise A.Unsupported("AwaiterSet operation on an untracked awaiter: %r" % (v,))

    LCN, LCW, LCI = consts["awaiter::NOTIFIED"], consts["awaiter::WAITING"], consts["awaiter::IDLE"]

    def extra_visible(callee, args, fr, vals):
        if re.search(r"Mutex::<(?:awaiter_set::)?AwaiterSet>::lock$", callee):
            return dict(kind="LOCK", results=[None], result_value={None: GUARD})
        m = re.match(r"^AwaiterSet::(\w+)$", callee)
        if m:
            name = m.group(1)
            if name == "notify_one":
                return dict(kind="SET_NOTIFY_ONE", notified=LCN, results=[("ENUM", "None"), ("ENUM", "Some", "TOKEN")],
                            result_value={("ENUM", "Some", "TOKEN"): ("ENUM", "Some", A.waker("set"))})
            if name == "notify_one_prior_generation":
                return dict(kind="SET_NOTIFY_PRIOR", notified=LCN, results=[("ENUM", "None"), ("ENUM", "Some", "TOKEN")],
                            result_value={("ENUM", "Some", "TOKEN"): ("ENUM", "Some", A.waker("set"))})
            if name == "is_empty":
                return dict(kind="SET_IS_EMPTY", results=[0, 1])
            if name == "register":
                if not A.is_waker(vals[2]):
                    raise A.Unsupported("register with an untracked waker: %r" % (vals[2],))
                return dict(kind="SET_REGISTER", awaiter=awaiter_of(vals[1]), waiting=LCW, notified=LCN)
            if name == "unregister":
                return dict(kind="SET_UNREGISTER", awaiter=awaiter_of(vals[1]), waiting=LCW, idle=LCI)
            if name == "advance_generation":
                return dict(kind="SET_ADVANCE_GEN")
            raise A.Unsupported("AwaiterSet::%s is not in the contract table" % name)
        return None

    def drop_hook(v):
        if is_guard(v):
            return dict(kind="UNLOCK")
        return None

    cfg = A.Config(funcs, consts, resolve, atomic_loc_of=atomic_loc_of, extra_visible=extra_visible, drop_hook=drop_hook,
                   extra_pure=("test_hooks::",))
    return funcs, afuncs, consts, cfg, find


WRAPPERS = {
    "auto": {
        "AutoResetEvent::set": r"^auto::<impl at [^>]*auto\.rs:\d+:\d+: \d+:\d+>::set$|AutoResetEvent\)",
        "AutoResetWaitFuture::poll": None, "AutoResetWaitFuture::drop": None,
    },
}


def wrapper_fingerprints(funcs, flavor):
    """fingerprints of the forwarding methods and the wait future's poll/drop (boxed and embedded)"""
    from .events_once_model import fingerprint
    out = {}
    for k, f in funcs.items():
        if not k.startswith(flavor + "::<impl at"):
            continue
        short = k.split(">::")[-1]
        first = f.sig.split("->")[0]
        if "EventInner" in first:
            continue                                  # protocol functions: taken from MIR, not modelled
        if short in ("set", "reset", "try_wait", "wait", "poll", "drop", "inner"):
            recv = re.search(r"\(_1: ([^,)]*)", f.sig)
            out["%s(%s)" % (short, recv.group(1) if recv else "")] = fingerprint(f)[0]
    return out


# ----- thread programs ---------------------------------------------------------------------------
class ThreadBuilder:
    """items: 'set' | 'reset' | 'try' | ('poll', a, w) | ('drop', a). ops: dict item-index/awaiter -> logical op id."""

    def __init__(self, cfg, find, opids):
        self.cfg, self.find, self.opids = cfg, find, opids
        self.interp = A.Interp(cfg)
        self.nodes = {}
        self.next_id = 0
        self.memo = {}
        self.cur_item = 0
        self.item_of = {}        # node id -> index of the program item it belongs to

    def new_node(self, op, succ=None):
        nid = self.next_id
        self.next_id += 1
        self.nodes[nid] = dict(op=op, succ=succ or {})
        self.item_of[nid] = self.cur_item
        return nid

    def func_automaton(self, fname, args, on_return):
        b = A.Builder(self.interp)
        entry = b.start(self.find(fname), args)
        remap = {}
        for n in b.nodes:
            remap[n.id] = self.new_node(dict(n.op))
        cont = {}

        def conv(x):
            if isinstance(x, int):
                return remap[x]
            if x[0] == "PANIC":
                return x
            key = repr(x[1])
            if key not in cont:
                cont[key] = on_return(x[1])
            return cont[key]
        for n in b.nodes:
            self.nodes[remap[n.id]]["succ"] = {k: conv(v) for k, v in n.succ.items()}
        return conv(entry) if not isinstance(entry, int) else remap[entry]

    def stamp_inv(self, entry, o):
        """invocation stamp on the operation's first shared step (= latest possible invocation, the
        strongest real-time order; the response stamp is taken right after the last step)"""
        if isinstance(entry, int):
            g = dict(self.nodes[entry]["op"].get("ghost") or {})
            g["inv"] = o
            self.nodes[entry]["op"]["ghost"] = g
            return entry
        return self.new_node(dict(kind="NOP", ghost=dict(inv=o), late=True), {None: entry})

    def build(self, tid, items):
        self.tid = tid
        return self.from_(items, 0, frozenset(), frozenset())

    def from_(self, items, i, done, started):
        saved = self.cur_item
        self.cur_item = i
        try:
            return self._from(items, i, done, started)
        finally:
            self.cur_item = saved

    def _from(self, items, i, done, started):
        """done: awaiters whose wait completed or was dropped; started: awaiters polled at least once"""
        key = (i, done, started)
        if key in self.memo:
            return self.memo[key]
        if i >= len(items):
            return "END"
        it = items[i]
        nxt = lambda d=done, s=started: self.from_(items, i + 1, d, s)
        if it in ("set", "reset"):
            o = self.opids[(self.tid, i)]

            def ret(v):
                return self.new_node(dict(kind="NOP", ghost=dict(resp=(o, 2, None))), {None: nxt()})
            f = self.func_automaton(it, {}, ret)
            r = self.stamp_inv(f, o)
        elif it == "try":
            o = self.opids[(self.tid, i)]

            def ret(v):
                if v not in (0, 1):
                    raise A.Unsupported("try_wait returned %r" % (v,))
                return self.new_node(dict(kind="NOP", ghost=dict(resp=(o, 2, v))), {None: nxt()})
            f = self.func_automaton("try_wait", {}, ret)
            r = self.stamp_inv(f, o)
        elif it[0] == "poll":
            _, a, w = it
            o = self.opids[("w", a)]
            if a in done:
                r = nxt()
            else:
                def ret(v):
                    if v == ("ENUM", "Pending"):
                        return nxt(done, started | {a})
                    if isinstance(v, tuple) and v[:2] == ("ENUM", "Ready"):
                        # completed; the future is dropped afterwards (drop_wait sees an idle awaiter)
                        after = self.func_automaton("drop_wait", {"_2": ("AWAITER", a)}, lambda _v: nxt(done | {a}, started | {a}))
                        return self.new_node(dict(kind="NOP", ghost=dict(resp=(o, 2, 1))), {None: after})
                    raise A.Unsupported("poll_wait returned %r" % (v,))
                f = self.func_automaton("poll_wait", {"_2": ("AWAITER", a), "_3": A.waker(w)}, ret)
                if a not in started:
                    f = self.stamp_inv(f, o)
                # the clone is thread-local but must be schedulable late (it precedes the first shared step)
                r = self.new_node(dict(kind="CLONE", waker=w, line=("wait future", 0), ghost=dict(lastw=(a, w)), late=True), {"TOKEN": f})
        elif it[0] == "drop":
            _, a = it
            o = self.opids[("w", a)]
            if a in done:
                r = nxt()
            else:
                def ret(v):
                    return self.new_node(dict(kind="NOP", ghost=dict(resp=(o, 3, None))), {None: nxt(done | {a}, started)})
                r = self.func_automaton("drop_wait", {"_2": ("AWAITER", a)}, ret)
        else:
            raise ValueError(it)
        self.memo[key] = r
        return r


def logical_ops(programs):
    """assign logical operation ids: one per set/reset/try occurrence, one per awaiter"""
    opids, kinds = {}, []
    for t, items in enumerate(programs):
        for i, it in enumerate(items):
            if it in ("set", "reset", "try"):
                opids[(t, i)] = len(kinds)
                kinds.append((it, None))
            elif it[0] in ("poll", "drop"):
                if ("w", it[1]) not in opids:
                    opids[("w", it[1])] = len(kinds)
                    kinds.append(("wait", it[1]))
    return opids, kinds


def build_scenario(cfg, find, programs):
    from .events_once_model import longest_path
    opids, kinds = logical_ops(programs)
    threads = []
    k = 0
    for t, items in enumerate(programs):
        tb = ThreadBuilder(cfg, find, opids)
        e = tb.build(t, items)
        threads.append(dict(nodes=tb.nodes, entry=e, item_of=tb.item_of))
        lp, loops = longest_path(tb.nodes, e)
        k += lp + 2 * min(loops, 2)
    awaiters = sorted({it[1] for items in programs for it in items if isinstance(it, tuple)})
    return threads, k, opids, kinds, (max(awaiters) + 1 if awaiters else 0)


def prog_name(programs):
    def one(items):
        out = []
        for it in items:
            if isinstance(it, str):
                out.append(it)
            elif it[0] == "poll":
                out.append("w%d.poll(%d)" % (it[1], it[2]))
            else:
                out.append("w%d.drop" % it[1])
        return ",".join(out) or "-"
    return " || ".join(one(p) for p in programs)


def P(a, w):
    return ("poll", a, w)


def D(a):
    return ("drop", a)


AUTO_QUICK = [
    [["set"], [P(0, 1)]],
    [["set"], [P(0, 1), D(0)]],
    [["set"], [P(0, 1), P(0, 2)]],
    [["set"], ["try"]],
    [["set", "set"], [P(0, 1), P(0, 2)]],
    [["set"], [P(0, 1)], [P(1, 2)]],
    [["set"], [P(0, 1), D(0)], [P(1, 2)]],
    [["set"], [P(0, 1)], ["try"]],
    [["set"], ["set"], [P(0, 1), P(0, 2)]],
]
AUTO_THOROUGH = AUTO_QUICK + [
    [["set", "set"], [P(0, 1), D(0)], [P(1, 2)]],
    [["set"], [P(0, 1), P(0, 2)], [P(1, 3), D(1)]],
    [["set", "try"], [P(0, 1), D(0)]],
    [["set"], ["set"], [P(0, 1)], ],
    # not registered (kept for reference): no verdict within 30 min of z3 under load
    # [["set", "set"], [P(0, 1), P(0, 2)], [P(1, 3), P(1, 3)]],
    [["set"], [P(0, 1), D(0)], ["try", "try"]],
]
MANUAL_QUICK = [
    [["set"], [P(0, 1)]],
    [["set"], [P(0, 1), P(0, 2)]],
    [["set", "reset"], [P(0, 1)]],
    [["set"], [P(0, 1), D(0)]],
    [["set"], [P(0, 1)], [P(1, 2)]],
    [["set", "reset"], [P(0, 1), P(0, 2)]],
    [["set"], ["reset"], [P(0, 1)]],
    [["set", "reset", "set"], [P(0, 1), P(0, 2)]],
    [["set"], ["reset", P(1, 2)], [P(0, 1)]],
]
MANUAL_THOROUGH = MANUAL_QUICK + [
    [["set", "set"], ["reset", P(1, 2)], [P(0, 1)]],
    [["set", "reset"], [P(0, 1)], [P(1, 2)]],
    [["set"], ["reset", "try"], [P(0, 1)]],
    # not registered (kept for reference): no verdict within 30 min of z3 under load
    # [["set", "reset", "set"], [P(0, 1)], [P(1, 2), D(1)]],
    [["set"], ["try"], [P(0, 1), P(0, 2)]],
]


def all_permutations(n):
    return list(itertools.permutations(range(n)))
