"""future_deque (waker metadata protocol): scenarios, interpretation tables, monitors (C15 slice).

Everything of the crate that takes part in the wake / activation / reference-count protocol is
interpreted from the MIR dump: `FutureDequeCore::{poll, drop}`, `make_waker`, `check_activated`,
`release_ref` and the four RawWaker vtable functions `{clone, wake, wake_by_ref, drop}_raw_waker`;
the initial values of `ref_count` / `activated` are read from the MIR of `create_waker_meta`'s
closure, the field order of `WakerMeta` from the source. The deque holds ONE slot. What is outside
the crate is replaced by its contract: `VecDeque` iteration over that one slot, `Mutex<Waker>`
(lock / guard drop with happens-before), `Waker::{will_wake, clone_from, clone, wake_by_ref}` on the
parent waker, the pool allocation (`plurality::Box::{into_raw, from_raw}`; dropping the re-made box
is the storage release). The contained future is a *script* written as MIR text and interpreted by
the same machinery: on its first poll it clones the waker it is given (through the real
`clone_raw_waker`) and hands the clone to the waker thread (release/acquire hand-off, as a channel
would), then returns Pending; later polls return Pending or Ready as the scenario says."""
import os
import re
import tempfile

from . import auto as A
from . import mir as M

GUARD = ("GUARD",)
META = "META"
SLOTW = ("MWAKER", "slot")
NOOP_ID = 3           # id of the Waker::noop() the parent mutex starts with


def is_guard(v):
    return v == GUARD or (isinstance(v, tuple) and len(v) >= 3 and v[0] == "ENUM" and v[2] == GUARD)


def is_mwaker(v):
    return isinstance(v, tuple) and len(v) == 2 and v[0] == "MWAKER"


def future_mir(script):
    """MIR text of the scripted future: script = list of 'give' | 'pending' | 'ready' per poll (the last entry repeats)."""
    arms = []
    blocks = []
    nb = 2
    for i, act in enumerate(script):
        start = nb
        if act == "give":
            blocks.append("    bb%d: {\n        _5 = verif_context_waker_data(copy _2) -> [return: bb%d, unwind continue];\n    }\n" % (nb, nb + 1))
            blocks.append("    bb%d: {\n        _6 = clone_raw_waker(copy _5) -> [return: bb%d, unwind continue];\n    }\n" % (nb + 1, nb + 2))
            blocks.append("    bb%d: {\n        _7 = verif_handoff_send(move _6) -> [return: bb%d, unwind continue];\n    }\n" % (nb + 2, nb + 3))
            blocks.append("    bb%d: {\n        _0 = Poll::<T>::Pending;\n        return;\n    }\n" % (nb + 3))
            nb += 4
        elif act == "pending":
            blocks.append("    bb%d: {\n        _0 = Poll::<T>::Pending;\n        return;\n    }\n" % nb)
            nb += 1
        elif act == "ready":
            blocks.append("    bb%d: {\n        _8 = verif_output() -> [return: bb%d, unwind continue];\n    }\n" % (nb, nb + 1))
            blocks.append("    bb%d: {\n        _0 = Poll::<T>::Ready(move _8);\n        return;\n    }\n" % (nb + 1))
            nb += 2
        else:
            raise ValueError(act)
        arms.append((i, start))
    sw = ", ".join("%d: bb%d" % (i, b) for i, b in arms[:-1])
    sw = (sw + ", " if sw else "") + "otherwise: bb%d" % arms[-1][1]
    head = ("fn verif_future_poll(_1: Pin<&mut dyn ErasedFuture<T>>, _2: &mut Context<'_>) -> Poll<T> {\n"
            "    let mut _0: Poll<T>;\n    let mut _3: usize;\n    let mut _4: std::sync::atomic::Ordering;\n"
            "    bb0: {\n        _4 = std::sync::atomic::Ordering::Relaxed;\n"
            "        _3 = Atomic::<usize>::fetch_add(move _9, const 1_usize, move _4) -> [return: bb1, unwind continue];\n    }\n"
            "    bb1: {\n        switchInt(move _3) -> [%s];\n    }\n" % sw)
    return head + "".join(blocks) + "}\n"


def load(mir_path, repo, script, wdata=None):
    data_of = {1: 1, 2: 2, NOOP_ID: 0}
    data_of.update({int(k): int(v) for k, v in (wdata or {}).items()})
    funcs = M.parse(mir_path)
    with tempfile.NamedTemporaryFile("w", suffix=".mir", delete=False) as f:
        f.write(future_mir(script))
        tmp = f.name
    try:
        funcs.update(M.parse(tmp))
    finally:
        os.unlink(tmp)
    # field order of WakerMeta from the source (MIR field indexes follow declaration order)
    src = open(os.path.join(repo, "packages/future_deque/src/waker_meta.rs")).read()
    m = re.search(r"struct WakerMeta \{(.*?)\n\}", src, re.S)
    if not m:
        raise A.Unsupported("struct WakerMeta not found in waker_meta.rs")
    fields = re.findall(r"^\s*(?:pub(?:\([a-z]+\))?\s+)?(\w+)\s*:", re.sub(r"//[^\n]*", "", m.group(1)), re.M)
    if sorted(fields) != ["activated", "ref_count", "shared_parent"]:
        raise A.Unsupported("WakerMeta fields changed: %r" % (fields,))
    field_loc = {str(fields.index("ref_count")): "ref", str(fields.index("activated")): "act"}
    # initial values from create_waker_meta's closure: WakerMeta { ref_count: move _a, activated: move _b, .. } with _x = Atomic::<usize>::new(const N)
    cl = [f for k, f in funcs.items() if k.startswith("create_waker_meta::{closure#0}")]
    if len(cl) != 1:
        raise A.Unsupported("create_waker_meta closure not found exactly once")
    news, agg = {}, None
    for blk in cl[0].blocks.values():
        if blk.cleanup:
            continue
        if blk.term:
            mm = re.match(r"^(_\d+) = Atomic::<usize>::new\(const (\d+)_usize\)", blk.term[0])
            if mm:
                news[mm.group(1)] = int(mm.group(2))
        for (t, _) in blk.stmts:
            mm = re.match(r"^_\d+ = WakerMeta \{ (.*) \};$", t)
            if mm:
                agg = dict(x.strip().split(": ") for x in M.split_top(mm.group(1)))
    if not agg or "ref_count" not in agg or "activated" not in agg:
        raise A.Unsupported("WakerMeta aggregate not found in create_waker_meta")
    try:
        init = {"ref": news[agg["ref_count"].replace("move ", "")], "act": news[agg["activated"].replace("move ", "")]}
    except KeyError:
        raise A.Unsupported("initial values of ref_count / activated are not Atomic::new(const N)")

    def find(name):
        if name in funcs and not name.startswith("future_deque_core"):
            return funcs[name]
        c = [f for k, f in funcs.items() if re.search(r"^future_deque_core::<impl at [^>]*future_deque_core\.rs:\d+:\d+: \d+:\d+>::" + re.escape(name) + "$", k)
             and "FutureDequeCore" in f.sig.split("->")[0]]
        if len(c) != 1:
            raise A.Unsupported("function %s not found exactly once in the MIR dump (%d)" % (name, len(c)))
        return c[0]

    LOCAL = ("make_waker", "check_activated", "release_ref", "clone_raw_waker", "wake_raw_waker", "wake_by_ref_raw_waker", "drop_raw_waker")

    def resolve(callee):
        c = callee.replace("waker_meta::", "")
        if c in LOCAL:
            return find(c)
        if re.search(r"ErasedFuture<T>>::poll_erased$", callee):
            return funcs["verif_future_poll"]
        return None

    def atomic_loc_of(fr, arg):
        if fr.func.name == "verif_future_poll":
            return "futn"
        mm = re.match(r"^(?:move|copy) (_\d+)$", arg.strip())
        if mm:
            for blk in fr.func.blocks.values():
                for (t, _) in blk.stmts:
                    m2 = re.match(r"^%s = &\(\(\*_\d+\)\.(\d+): std::sync::atomic::Atomic<usize>\);$" % re.escape(mm.group(1)), t)
                    if m2 and m2.group(1) in field_loc:
                        return field_loc[m2.group(1)]
        raise A.Unsupported("atomic access to an unknown location (%s in %s)" % (arg, fr.func.short()))

    def extra_visible(callee, args, fr, vals):
        if re.search(r"Mutex::<(?:std::task::)?Waker>::lock$", callee):
            in_core = fr.func.name.startswith("future_deque_core")
            return dict(kind="LOCK", results=[None], result_value={None: GUARD}, touch=not in_core)
        if re.search(r"Mutex::<(?:std::task::)?Waker>::try_lock$", callee):
            in_core = fr.func.name.startswith("future_deque_core")
            return dict(kind="TRYLOCK", results=["OK", "ERR"], result_value={"OK": ("ENUM", "Ok", GUARD), "ERR": ("ENUM", "Err", "WOULDBLOCK")}, touch=not in_core)
        if re.search(r"(^|::)Waker::data$", callee) and is_guard(vals[0]):
            return dict(kind="PARENT_DATA", data_of=dict(data_of), results=sorted(set(data_of.values())))
        if re.search(r"(^|::)Waker::will_wake$", callee):
            w = vals[1]
            if not (isinstance(w, tuple) and w[0] == "WAKERREF") or not is_guard(vals[0]):
                raise A.Unsupported("will_wake on %r, %r" % (vals[0], w))
            return dict(kind="PARENT_WILL_WAKE", waker=w[1], results=[0, 1])
        if re.search(r"<(?:std::task::)?Waker as (?:std::clone::)?Clone>::clone_from$", callee):
            w = vals[1]
            if not (isinstance(w, tuple) and w[0] == "WAKERREF") or not is_guard(vals[0]):
                raise A.Unsupported("clone_from on %r, %r" % (vals[0], w))
            return dict(kind="PARENT_STORE", waker=w[1])
        if re.search(r"<(?:std::task::)?Waker as (?:std::clone::)?Clone>::clone$", callee):
            if not is_guard(vals[0]):
                raise A.Unsupported("Waker::clone on %r (only the parent waker under its guard is cloned by the crate)" % (vals[0],))
            return dict(kind="PARENT_CLONE", results=[None], result_value={None: A.waker("parent")})
        if callee == "verif_handoff_send":
            return dict(kind="ATOMIC", op="store", ints=[1], ords=["Release"], loc="chan")
        return None

    def drop_hook(v):
        if is_guard(v):
            return dict(kind="UNLOCK")
        if v == "METABOX":
            return dict(kind="RELEASE")
        return None

    def drop_call(v):
        if A.contains(v, is_mwaker):
            return funcs_drop_raw(), {"_1": "METADATA"}
        return None

    def funcs_drop_raw():
        return find("drop_raw_waker")

    def extra_rvalue(interp, fr, rv):
        mm = re.match(r"^(?:future_deque_core::)?Slot::<T>::Ready \{ value: (.+) \}$", rv)
        if mm:
            return ("ENUM", "SlotReady", interp.operand(fr, mm.group(1)))
        return NotImplemented

    def slot_keys(fr):
        return sorted(k for k in fr.env if k.startswith("@slot"))

    def extra_call(interp, callee, vals, fr, dst):
        def out(v):
            if dst:
                fr.env[dst] = v
            return True
        if re.match(r"^Context::<'_>::waker$", callee):
            v = interp.deref_alias(fr, vals[0])
            if isinstance(v, tuple) and v and v[0] == "CONTEXT":
                return out(("WAKERREF", v[1]))
            raise A.Unsupported("Context::waker on %r" % (v,))
        if re.match(r"^Context::<'_>::from_waker$", callee):
            if not is_mwaker(vals[0]):
                raise A.Unsupported("Context::from_waker on %r" % (vals[0],))
            return out(("MCONTEXT", vals[0]))
        if re.search(r"(^|::)Waker::data$", callee):
            v = interp.deref_alias(fr, vals[0])
            if isinstance(v, tuple) and v and v[0] == "WAKERREF":
                return out(("PTR", data_of[v[1]]))
            raise A.Unsupported("Waker::data on %r" % (v,))
        if re.match(r"^std::ptr::eq::<", callee):
            a, b = vals[0], vals[1]
            a = ("PTR", a) if isinstance(a, int) else a
            b = ("PTR", b) if isinstance(b, int) else b
            if isinstance(a, tuple) and isinstance(b, tuple) and a[0] == "PTR" and b[0] == "PTR":
                return out(int(a[1] == b[1]))
            raise A.Unsupported("ptr::eq on %r, %r" % (a, b))
        if callee == "verif_context_waker_data":
            v = interp.deref_alias(fr, vals[0])
            if not (isinstance(v, tuple) and v and v[0] == "MCONTEXT"):
                raise A.Unsupported("the future was polled with a context that does not carry the slot's waker: %r" % (v,))
            return out("METADATA")
        if callee == "verif_output":
            return out("OUTPUT")
        if re.search(r"<&mut VecDeque<Slot<T>> as IntoIterator>::into_iter$", callee) or re.match(r"^VecDeque::<Slot<T>>::iter(_mut)?$", callee):
            return out(("ITER", 0))
        if re.search(r"vec_deque::IterMut<'_, Slot<T>> as Iterator>::next$", callee):
            r = vals[0]
            if not (isinstance(r, tuple) and r[0] == "REF" and isinstance(fr.env.get(r[1]), tuple) and fr.env[r[1]][0] == "ITER"):
                raise A.Unsupported("IterMut::next on %r" % (r,))
            idx = fr.env[r[1]][1]
            if "@slot%d" % idx in fr.env:
                fr.env[r[1]] = ("ITER", idx + 1)
                return out(("ENUM", "Some", ("SLOTREF", idx)))
            return out(("ENUM", "None"))
        if re.search(r"vec_deque::Iter<'_, Slot<T>> as Iterator>::any::<", callee):
            # the predicate closure is interpreted from its own MIR on every slot
            mm = re.search(r"\{closure@([^}]*)\}", callee)
            cl_ = [f for k, f in funcs.items() if mm and "{closure@%s}" % mm.group(1) in f.sig.split(") -> ")[0] and "::{closure#" in k]
            if len(cl_) != 1:
                raise A.Unsupported("predicate closure of the final `any` in poll not found")
            anyp = False
            for k in slot_keys(fr):
                r = interp.run([A.Frame(cl_[0], {"_2": fr.env[k]})])
                if r[0] != "RET" or r[1] not in (0, 1):
                    raise A.Unsupported("predicate closure of `any` did not evaluate on %r: %r" % (fr.env[k], r))
                anyp = anyp or bool(r[1])
            return out(int(anyp))
        if re.match(r"^std::mem::replace::<(?:future_deque_core::)?Slot<T>>$", callee):
            r = vals[0]
            if not (isinstance(r, tuple) and r[0] == "SLOTREF"):
                raise A.Unsupported("mem::replace on %r" % (r,))
            key = "@slot%d" % r[1]
            old = fr.env[key]
            fr.env[key] = vals[1]
            return out(old)
        if re.match(r"^VecDeque::<Slot<T>>::drain::<RangeFull>$", callee):
            return out(("DRAIN", 0))
        if re.search(r"vec_deque::Drain<'_, Slot<T>> as IntoIterator>::into_iter$", callee):
            return out(vals[0])
        if re.search(r"vec_deque::Drain<'_, Slot<T>> as Iterator>::next$", callee):
            r = vals[0]
            if not (isinstance(r, tuple) and r[0] == "REF" and isinstance(fr.env.get(r[1]), tuple) and fr.env[r[1]][0] == "DRAIN"):
                raise A.Unsupported("Drain::next on %r" % (r,))
            idx = fr.env[r[1]][1]
            key = "@slot%d" % idx
            if key in fr.env:
                v = fr.env.pop(key)
                fr.env[r[1]] = ("DRAIN", idx + 1)
                return out(("ENUM", "Some", v))
            return out(("ENUM", "None"))
        if re.search(r"plurality::Box::<(?:waker_meta::)?WakerMeta>::from_raw$", callee):
            return out("METABOX")
        if re.search(r"::cast_mut$", callee) or re.search(r"plurality::Box::<dyn ErasedFuture<T>>::as_pin_mut$", callee):
            return out(vals[0])
        if re.match(r"^RawWaker::new$", callee):
            return out("RAW")
        if re.match(r"^Waker::from_raw$", callee):
            return out(("MWAKER", "made"))
        return False

    cfg = A.Config(funcs, {}, resolve, atomic_loc_of=atomic_loc_of, extra_visible=extra_visible, drop_hook=drop_hook, extra_call=extra_call,
                   drop_call=drop_call, extra_rvalue=extra_rvalue)
    return funcs, cfg, find, init


# ----- thread programs ---------------------------------------------------------------------------
OP_FUT, OP_WAKE0 = 0, 1        # logical-operation registers: 0 = latest poll of the contained future, 1.. = wake operations of W


class ThreadBuilder:
    def __init__(self, cfg, find):
        self.cfg, self.find = cfg, find
        self.interp = A.Interp(cfg)
        self.nodes = {}
        self.next_id = 0
        self.cur_item = 0
        self.item_of = {}

    def new_node(self, op, succ=None):
        nid = self.next_id
        self.next_id += 1
        self.nodes[nid] = dict(op=op, succ=succ or {})
        self.item_of[nid] = self.cur_item
        return nid

    def func_automaton(self, fname, args, on_return):
        b = A.Builder(self.interp)
        entry = b.start(self.find(fname), args)
        remap = {}
        for n in b.nodes:
            op = dict(n.op)
            if op["kind"] == "ATOMIC" and op.get("loc") == "act" and fname in ("poll", "check_activated") and op["op"] != "load":
                # stamp: the step at which the deque last CONSUMED an activation (check_activated read non-zero and
                # cleared the flag) - the poll of the contained future follows it; wakes after this step are unconsumed
                op["ghost"] = dict(inv_if_nonzero=OP_FUT)
            remap[n.id] = self.new_node(op)
        cont = {}

        def conv(x):
            if isinstance(x, int):
                return remap[x]
            if x[0] == "PANIC":
                return x
            key = repr(x[1])
            if key not in cont:
                cont[key] = on_return(x[1])
            return cont[key]
        for n in b.nodes:
            self.nodes[remap[n.id]]["succ"] = {k: conv(v) for k, v in n.succ.items()}
        return conv(entry) if not isinstance(entry, int) else remap[entry]

    @staticmethod
    def split_ret(v):
        if isinstance(v, tuple) and v and v[0] == "WITHOBJ":
            return v[1], dict(v[2])
        return v, {}

    # --- deque owner: push, then items ('poll', k) | 'drop' -------------------------------------
    def owner(self, items):
        # push_back_handle = create_waker_meta (initial values, no shared step) + make_waker (interpreted)
        def after_push(v):
            if not is_mwaker(v):
                raise A.Unsupported("make_waker returned %r" % (v,))
            st = {"@core.0": "PARENT", "@core.1": "SLOTS", "@slot0": ("ENUM", "SlotPending", "HANDLE", META, SLOTW)}
            return self.owner_from(items, 0, A.freeze(st))
        self.cur_item = 0
        return self.func_automaton("make_waker", {"_1": META}, after_push)

    def owner_from(self, items, i, objs):
        st = dict(objs)
        if i >= len(items):
            slot = st.get("@slot0")
            live = 2 if (isinstance(slot, tuple) and slot[1] == "SlotPending") else 0
            return self.new_node(dict(kind="NOP", ghost=dict(outcome=10 + live), late=True), {None: "END"})
        saved = self.cur_item
        self.cur_item = i + 1
        try:
            it = items[i]
            args = dict(st, _1=("OBJ", "core"))

            def ret(v):
                v, st2 = self.split_ret(v)
                return self.owner_from(items, i + 1, A.freeze(st2))
            if it == "drop":
                return self.func_automaton("drop", args, ret)
            if isinstance(it, (tuple, list)) and it[0] == "poll":
                return self.func_automaton("poll", dict(args, _2=("CONTEXT", int(it[1]))), ret)
            raise ValueError(it)
        finally:
            self.cur_item = saved

    # --- waker thread: receives the clone the future made, then vtable calls ---------------------
    def waker_thread(self, items):
        def go(i, wakes):
            if i >= len(items):
                return "END"
            self.cur_item = i + 1
            it = items[i]
            nxt = lambda v: go(i + 1, wakes + (1 if it in ("wake", "wake_by_ref") else 0))
            fn = {"wake": "wake_raw_waker", "wake_by_ref": "wake_by_ref_raw_waker", "clone": "clone_raw_waker", "drop": "drop_raw_waker"}[it]
            entry = self.func_automaton(fn, {"_1": "METADATA"}, nxt)
            if it in ("wake", "wake_by_ref"):
                o = OP_WAKE0 + wakes
                if not isinstance(entry, int):
                    raise A.Unsupported("%s has no shared step" % fn)
                g = dict(self.nodes[entry]["op"].get("ghost") or {})
                g["inv"] = o
                self.nodes[entry]["op"]["ghost"] = g
                # the parent wake inside this operation records which waker it invoked
                stack, seen = [entry], set()
                while stack:
                    n = stack.pop()
                    if not isinstance(n, int) or n in seen or self.item_of.get(n) != i + 1:
                        continue
                    seen.add(n)
                    if self.nodes[n]["op"]["kind"] == "WAKE":
                        g2 = dict(self.nodes[n]["op"].get("ghost") or {})
                        g2["stamp_hand"] = o
                        self.nodes[n]["op"]["ghost"] = g2
                    stack.extend(self.nodes[n]["succ"].values())
            return entry
        self.cur_item = 0
        first = go(0, 0)
        self.cur_item = 0
        return self.new_node(dict(kind="ATOMIC", op="load", ints=[], ords=["Acquire"], loc="chan", line=None, await_=None), {1: first, 0: ("PANIC", "hand-off read 0")})


def holds_ref_at_end(witems):
    """number of waker references the waker thread still holds when its program ends"""
    n = 1
    for it in witems:
        if it in ("wake", "drop"):
            n -= 1
        elif it == "clone":
            n += 1
    return n


QUICK = [
    # (future script, owner items, waker-thread items)
    (["give", "pending"], [("poll", 1), ("poll", 2)], ["wake"]),
    (["give", "pending"], [("poll", 1), ("poll", 1)], ["wake_by_ref", "drop"]),
    (["give", "ready"], [("poll", 1), ("poll", 2)], ["wake"]),
    (["give", "ready"], [("poll", 1), ("poll", 2), "drop"], ["wake_by_ref", "drop"]),
    (["give", "pending"], [("poll", 1), "drop"], ["wake"]),
    (["give", "pending"], [("poll", 1), "drop"], ["clone", "drop", "wake"]),
    (["give", "pending"], [("poll", 1), ("poll", 2)], ["wake_by_ref", "wake"]),
    (["give", "pending"], [("poll", 1)], ["drop"]),
    (["give", "ready"], [("poll", 1), ("poll", 1), "drop"], ["wake_by_ref"]),
    # task waker 1 has a null data pointer like Waker::noop() (static / hand-rolled RawWakers): identity must not be judged by the data pointer
    (["give", "pending"], [("poll", 1)], ["wake"], {"1": 0}),
    (["give", "pending"], [("poll", 2), ("poll", 1)], ["wake_by_ref", "drop"], {"1": 2}),
]
THOROUGH = QUICK + [
    (["give", "pending", "pending"], [("poll", 1), ("poll", 2), ("poll", 2)], ["wake_by_ref", "drop"]),
    (["give", "pending", "ready"], [("poll", 1), ("poll", 2), ("poll", 1)], ["wake_by_ref", "wake"]),
    (["give", "pending"], [("poll", 1), ("poll", 2), "drop"], ["wake_by_ref", "clone", "wake", "drop"]),
    (["give", "ready"], [("poll", 1), ("poll", 2), ("poll", 2), "drop"], ["wake"]),
]


def _valid_waker_programs(maxlen):
    """all programs over wake / wake_by_ref / clone / drop that never use a waker after the thread's last one is gone"""
    out = []

    def go(prog, held):
        if prog:
            out.append(list(prog))
        if len(prog) == maxlen or held == 0:
            return
        for it in ("wake", "wake_by_ref", "clone", "drop"):
            go(prog + [it], held + (1 if it == "clone" else -1 if it in ("wake", "drop") else 0))
    go([], 1)
    return out


def generated_family():
    """thorough tier: every valid waker-thread program of <= 3 operations x owner programs x future scripts"""
    owners = [[("poll", 1)], [("poll", 1), ("poll", 2)], [("poll", 1), ("poll", 1)], [("poll", 1), "drop"], [("poll", 1), ("poll", 2), "drop"]]
    futs = [["give", "pending"], ["give", "ready"]]
    seen = set(prog_name(x) for x in THOROUGH)
    out = []
    for wk in _valid_waker_programs(3):
        for own in owners:
            for fut in futs:
                if fut[-1] == "ready" and len([x for x in own if x != "drop"]) < 2:
                    continue            # the second poll of the future needs a second deque poll
                sc = (fut, own, wk)
                if prog_name(sc) not in seen:
                    seen.add(prog_name(sc))
                    out.append(sc)
    return out


def prog_name(sc):
    fut, own, wk = sc[:3]
    extra = (" | waker data " + ",".join("%s->%s" % kv for kv in sorted(sc[3].items()))) if len(sc) > 3 and sc[3] else ""
    return "F:%s | D:%s | W:%s%s" % (",".join(fut), ",".join(x if isinstance(x, str) else "poll(%s)" % x[1] for x in own), ",".join(wk), extra)


def build_scenario(cfg, find, own, wk):
    from .events_once_model import longest_path
    tb0 = ThreadBuilder(cfg, find)
    e0 = tb0.owner(own)
    tb1 = ThreadBuilder(cfg, find)
    e1 = tb1.waker_thread(wk)
    for n in tb1.nodes.values():
        if n["op"].get("loc") == "chan" and n["op"]["op"] == "load":
            n["op"].pop("await_", None)
            n["op"]["await"] = 1
    threads = [dict(nodes=tb0.nodes, entry=e0, item_of=tb0.item_of), dict(nodes=tb1.nodes, entry=e1, item_of=tb1.item_of)]
    k = 0
    for th in threads:
        lp, loops = longest_path(th["nodes"], th["entry"])
        k += lp + 2 * min(loops, 2)
    return threads, k
