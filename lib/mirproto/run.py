"""Worker / CLI of the mirproto engine (run under python3-vt: needs the z3 module).

  python3-vt -m mirproto.run scenario --model events_once --mir <path> --prop C05 --sender send --recv poll1,drop
prints one JSON object with the verdicts of that scenario.
"""
import argparse
import json
import os
import sys
import time

sys.path.insert(0, os.path.dirname(os.path.dirname(os.path.abspath(__file__))))

import z3  # noqa: E402

from mirproto import auto as A  # noqa: E402
from mirproto import encode as E  # noqa: E402
from mirproto import events_once_model as EO  # noqa: E402

REPO = os.environ.get("FOLO_REPO", "/repo")


def violation_exprs(prop, F, sender_op, T):
    """dict label -> z3 Bool that is true when the final (quiescent) state F violates the property."""
    v = {}
    if prop == "C05":
        v["panic / unreachable arm / cell misuse / waker bookkeeping"] = z3.And(F.bad != E.N(0), F.bad != E.N(E.BAD_AFTER_RELEASE))
        v["data race on the payload or waker cell (access not ordered by happens-before)"] = F.race == E.N(E.RACE_CELL)
        v["payload not handed over or destroyed exactly once"] = z3.Or(
            z3.And(F.recv_gone, z3.Or(F.cnt["written"] != F.cnt["delivered"] + F.cnt["vdrops"], F.init["value"])),
            z3.And(z3.Not(F.recv_gone), F.cnt["written"] != F.cnt["delivered"] + F.cnt["vdrops"] + z3.If(F.init["value"], E.N(1), E.N(0))))
        v["cloned wakers not dropped exactly once / waker left in the event"] = z3.Or(
            F.cnt["clones"] != F.cnt["wdrops"], F.init["awaiter"], *[F.hand[t] != 0 for t in range(T)])
        wrong = E.BV8(EO.OUT_DISCONNECTED if sender_op == "send" else EO.OUT_VALUE)
        v["receiver outcome contradicts the sender's operation"] = F.outcome == wrong
        v["pending receiver not woken after the sender completed (lost wake-up)"] = z3.And(
            z3.Not(F.recv_gone), F.last_pending != 0, F.sender_done,
            (F.woken & (E.BV8(1) << F.last_pending)) == 0)
    elif prop == "C06":
        v["event memory accessed after its storage was released"] = F.bad == E.N(E.BAD_AFTER_RELEASE)
        v["storage released without happens-before from the other endpoint's last access"] = F.race == E.N(E.RACE_RELEASE)
        v["storage not released exactly once by the time both endpoints are gone"] = z3.Or(
            z3.And(F.recv_gone, F.cnt["released"] != E.N(1)), z3.And(z3.Not(F.recv_gone), F.cnt["released"] != E.N(0)))
    else:
        raise ValueError(prop)
    return v


def run_scenario(args):
    t0 = time.time()
    out = dict(scenario=EO.scenario_name(args.sender, args.recv), prop=args.prop, verdict=None, queries=[])
    try:
        funcs, consts, cfg, find = EO.load(args.mir, REPO)
        threads, k = EO.build_scenario(cfg, find, args.sender, args.recv)
    except A.Unsupported as e:
        out.update(verdict="unsupported", detail=str(e))
        return out
    out["k_longest_path"] = k
    k = min(k, args.kcap)
    if args.k:
        k = args.k
    for th in threads:
        if th["entry"] == "END":
            th["entry"] = E.END
    enc = E.Encoder(threads, k, stale_reads=args.stale)
    enc.build()
    out.update(k=k, nodes=[len(th["nodes"]) for th in threads], assertions=enc.n_assert,
               functions=sorted({"%s:%s" % (n["op"].get("line", ("?", 0))[0], n["op"]["kind"]) for th in threads for n in th["nodes"].values()}))
    F = enc.final()
    done = enc.done()
    tq = time.time()
    r, m = enc.check(done, timeout_s=args.timeout)
    out["queries"].append(dict(q="witness: a complete run exists", result=str(r), s=round(time.time() - tq, 2)))
    if r != z3.sat:
        out.update(verdict="vacuous" if r == z3.unsat else "timeout", detail="no complete run within k=%d" % k)
        return out
    # second witness: the sender's terminal arm can be reached last (both orders of completion)
    viol = violation_exprs(args.prop, F, args.sender, len(threads))
    tq = time.time()
    r, m = enc.check(done, z3.Or(*viol.values()), timeout_s=args.timeout)
    out["queries"].append(dict(q="violation of %s at quiescence" % args.prop, result=str(r), s=round(time.time() - tq, 2)))
    if r == z3.unknown:
        out.update(verdict="timeout", detail="solver gave up (%ss)" % args.timeout)
    elif r == z3.unsat:
        out.update(verdict="holds")
    else:
        labels = [lab for lab, e in viol.items() if z3.is_true(m.eval(e, model_completion=True))]
        fin = dict(bad=m.eval(F.bad).as_long(), race=m.eval(F.race).as_long(), released=m.eval(F.cnt["released"]).as_long(),
                   outcome=m.eval(F.outcome).as_long(), recv_gone=str(m.eval(F.recv_gone)), woken=m.eval(F.woken).as_long(),
                   last_pending=m.eval(F.last_pending).as_long(),
                   counts={k_: m.eval(v_).as_long() for k_, v_ in F.cnt.items()})
        out.update(verdict="violation", labels=labels, trace=enc.trace(m), final=fin)
    out["wall_s"] = round(time.time() - t0, 2)
    return out


def main():
    ap = argparse.ArgumentParser()
    ap.add_argument("cmd", choices=["scenario", "fingerprint", "automata"])
    ap.add_argument("--mir", required=True)
    ap.add_argument("--prop", default="C05")
    ap.add_argument("--sender", default="send")
    ap.add_argument("--recv", default="poll1", type=lambda s: [x for x in s.split(",") if x])
    ap.add_argument("--k", type=int, default=0)
    ap.add_argument("--timeout", type=float, default=600)
    ap.add_argument("--stale", action="store_true", help="message-history model with stale reads (slow; cross-check only). Default: one atomic location => coherence makes value reads SC; happens-before is tracked with vector clocks either way")
    ap.add_argument("--kcap", type=int, default=22)
    args = ap.parse_args()
    if args.cmd == "fingerprint":
        funcs, consts, cfg, find = EO.load(args.mir, REPO)
        print(json.dumps(EO.wrapper_fingerprints(funcs)))
        return
    if args.cmd == "automata":
        funcs, consts, cfg, find = EO.load(args.mir, REPO)
        threads, k = EO.build_scenario(cfg, find, args.sender, args.recv)
        for t, th in enumerate(threads):
            print("thread", t, "entry", th["entry"], "k", k)
            for nid, n in th["nodes"].items():
                print("  ", nid, {a: b for a, b in n["op"].items() if a not in ("next_bb", "dst", "argvals")}, "->", n["succ"])
        return
    print(json.dumps(run_scenario(args)))


if __name__ == "__main__":
    main()
