"""Worker / CLI of the mirproto engine (run under python3-vt: needs the z3 module).

  python3-vt -m mirproto.run scenario --model events_once --mir <path> --prop C05 --sender send --recv poll1,drop
prints one JSON object with the verdicts of that scenario.
"""
import argparse
import json
import os
import sys
import time

sys.path.insert(0, os.path.dirname(os.path.dirname(os.path.abspath(__file__))))

import z3  # noqa: E402

from mirproto import auto as A  # noqa: E402
from mirproto import encode as E  # noqa: E402
from mirproto import events_once_model as EO  # noqa: E402
from mirproto import events_model as EV  # noqa: E402

REPO = os.environ.get("FOLO_REPO", "/repo")


def violation_exprs(prop, F, sender_op, T):
    """dict label -> z3 Bool that is true when the final (quiescent) state F violates the property."""
    v = {}
    if prop == "C05":
        v["panic / unreachable arm / cell misuse / waker bookkeeping"] = z3.And(F.bad != E.N(0), F.bad != E.N(E.BAD_AFTER_RELEASE))
        v["data race on the payload or waker cell (access not ordered by happens-before)"] = F.race == E.N(E.RACE_CELL)
        v["payload not handed over or destroyed exactly once"] = z3.Or(
            z3.And(F.recv_gone, z3.Or(F.cnt["written"] != F.cnt["delivered"] + F.cnt["vdrops"], F.init["value"])),
            z3.And(z3.Not(F.recv_gone), F.cnt["written"] != F.cnt["delivered"] + F.cnt["vdrops"] + z3.If(F.init["value"], E.N(1), E.N(0))))
        v["cloned wakers not dropped exactly once / waker left in the event"] = z3.Or(
            F.cnt["clones"] != F.cnt["wdrops"], F.init["awaiter"], *[F.hand[t] != 0 for t in range(T)])
        wrong = E.BV8(EO.OUT_DISCONNECTED if sender_op == "send" else EO.OUT_VALUE)
        v["receiver outcome contradicts the sender's operation"] = F.outcome == wrong
        v["pending receiver not woken after the sender completed (lost wake-up)"] = z3.And(
            z3.Not(F.recv_gone), F.last_pending != 0, F.sender_done,
            (F.woken & (E.BV8(1) << F.last_pending)) == 0)
    elif prop == "C06":
        v["event memory accessed after its storage was released"] = F.bad == E.N(E.BAD_AFTER_RELEASE)
        v["storage released without happens-before from the other endpoint's last access"] = F.race == E.N(E.RACE_RELEASE)
        v["storage not released exactly once by the time both endpoints are gone"] = z3.Or(
            z3.And(F.recv_gone, F.cnt["released"] != E.N(1)), z3.And(z3.Not(F.recv_gone), F.cnt["released"] != E.N(0)))
    else:
        raise ValueError(prop)
    return v


def run_scenario(args):
    t0 = time.time()
    out = dict(scenario=EO.scenario_name(args.sender, args.recv), prop=args.prop, verdict=None, queries=[])
    try:
        funcs, consts, cfg, find = EO.load(args.mir, REPO)
        threads, k = EO.build_scenario(cfg, find, args.sender, args.recv)
    except A.Unsupported as e:
        out.update(verdict="unsupported", detail=str(e))
        return out
    out["k_longest_path"] = k
    k = min(k, args.kcap)
    if args.k:
        k = args.k
    for th in threads:
        if th["entry"] == "END":
            th["entry"] = E.END
    enc = E.Encoder(threads, k, stale_reads=args.stale)
    enc.build()
    out.update(k=k, nodes=[len(th["nodes"]) for th in threads], assertions=enc.n_assert,
               functions=sorted({"%s:%s" % (n["op"].get("line", ("?", 0))[0], n["op"]["kind"]) for th in threads for n in th["nodes"].values()}))
    F = enc.final()
    done = enc.done()
    if args.pin:
        # sequential validation: operations run one at a time in the given order; report the final tuple
        order = []
        ri = 0
        for who in args.pin.split(","):
            if who == "S":
                order.append((0, 0))
            else:
                order.append((1, ri))
                ri += 1
        cons = []
        for i in range(enc.k):
            S_ = enc.S[i]
            def in_op(t, j):
                ids = [nid for nid, o in threads[t]["op_of"].items() if o == j]
                return z3.Or(*[S_.pc[t] == E.N(nid) for nid in ids]) if ids else z3.BoolVal(False)
            def finished(u, m_):
                return z3.Not(z3.Or(*[in_op(u, mm) for mm in range(m_ + 1)]))
            for pos, (t, j) in enumerate(order):
                before = order[:pos]
                if before:
                    cons.append(z3.Implies(z3.And(enc.sched[i] == E.N(t), in_op(t, j)), z3.And(*[finished(u, m_) for (u, m_) in before])))
            # receiver operations that are not in the order list never start
            nrecv = len([1 for (t, j) in order if t == 1])
            for j in range(nrecv, len(args.recv)):
                cons.append(z3.Implies(enc.sched[i] == E.N(1), z3.Not(in_op(1, j))))
        # "finished" = both threads at END, or the receiver parked before an operation outside the order
        r, m = enc.check(*cons, F.pc[0] == E.N(E.END), timeout_s=args.timeout)
        if r != z3.sat:
            out.update(verdict="pin-unsat", detail=str(r))
            return out
        ev = lambda x: m.eval(x, model_completion=True)
        out.update(verdict="pinned", final=dict(outcome=ev(F.outcome).as_long(), delivered=ev(F.cnt["delivered"]).as_long(), vdrops=ev(F.cnt["vdrops"]).as_long(),
                                                clones=ev(F.cnt["clones"]).as_long(), wdrops=ev(F.cnt["wdrops"]).as_long(), woken=ev(F.woken).as_long(),
                                                last_pending=ev(F.last_pending).as_long(), recv_gone=z3.is_true(ev(F.recv_gone)), sender_done=z3.is_true(ev(F.sender_done)),
                                                bad=ev(F.bad).as_long(), race=ev(F.race).as_long(), released=ev(F.cnt["released"]).as_long()))
        return out
    tq = time.time()
    r, m = enc.check(done, timeout_s=args.timeout)
    out["queries"].append(dict(q="witness: a complete run exists", result=str(r), s=round(time.time() - tq, 2)))
    if r != z3.sat:
        out.update(verdict="vacuous" if r == z3.unsat else "timeout", detail="no complete run within k=%d" % k)
        return out
    # second witness: the sender's terminal arm can be reached last (both orders of completion)
    viol = violation_exprs(args.prop, F, args.sender, len(threads))
    tq = time.time()
    r, m = enc.check(done, z3.Or(*viol.values()), timeout_s=args.timeout)
    out["queries"].append(dict(q="violation of %s at quiescence" % args.prop, result=str(r), s=round(time.time() - tq, 2)))
    if r == z3.unknown:
        out.update(verdict="timeout", detail="solver gave up (%ss)" % args.timeout)
    elif r == z3.unsat:
        out.update(verdict="holds")
    else:
        labels = [lab for lab, e in viol.items() if z3.is_true(m.eval(e, model_completion=True))]
        fin = dict(bad=m.eval(F.bad).as_long(), race=m.eval(F.race).as_long(), released=m.eval(F.cnt["released"]).as_long(),
                   outcome=m.eval(F.outcome).as_long(), recv_gone=str(m.eval(F.recv_gone)), woken=m.eval(F.woken).as_long(),
                   last_pending=m.eval(F.last_pending).as_long(),
                   counts={k_: m.eval(v_).as_long() for k_, v_ in F.cnt.items()})
        out.update(verdict="violation", labels=labels, trace=enc.trace(m), final=fin)
    out["wall_s"] = round(time.time() - t0, 2)
    return out


def c08_violations(F, kinds, flavor, consts, T, nA, droppable=()):
    """dict label -> z3 Bool: the quiescent state / history admits NO linearization, or a named consequence fails."""
    n = len(kinds)
    sig = consts["%s::%s" % (flavor, "SIGNALED" if flavor == "auto" else "IS_SET")]
    hasw = consts["%s::HAS_WAITERS" % flavor]
    lcn = consts["awaiter::NOTIFIED"]
    stored = (F.curL["state"] & E.BV8(sig)) != 0
    anyreg = z3.Or(*[F.reg[a] for a in range(nA)]) if nA else z3.BoolVal(False)
    inL, resp = [], []
    for o, (kind, a) in enumerate(kinds):
        if kind == "wait":
            notified_pending = z3.And(F.status[o] == E.BV8(1), F.curL["lc%d" % a] == E.BV8(lcn))
            inL.append(z3.Or(F.status[o] == E.BV8(2), notified_pending))
        else:
            inL.append(F.status[o] == E.BV8(2))
        resp.append(F.resp[o])
    # A cancelled wait on an auto-reset event has, at call granularity, up to two effects: it may have
    # been handed the signal while registered (consume) and its cancellation then passes the signal on
    # (restore, same effect as set()). Which of the two explanations applies (no effect / consume+restore)
    # is an existential choice of the linearization; every choice x every order must be invalid.
    import itertools
    dwaits = [o for o, (kind, a) in enumerate(kinds) if kind == "wait" and a in droppable] if flavor == "auto" else []
    invalid_all = []
    nperm = 0
    for choice in itertools.product((0, 1), repeat=len(dwaits)):
        borrowers = [o for o, c in zip(dwaits, choice) if c]
        ext = list(range(n)) + [("R", o) for o in borrowers]
        base = lambda x: x[1] if isinstance(x, tuple) else x
        def in_l(x):
            if isinstance(x, tuple):
                return F.status[x[1]] == E.BV8(3)
            if x in borrowers:
                return z3.Or(inL[x], F.status[x] == E.BV8(3))
            return inL[x]
        for pi in itertools.permutations(ext):
            if any(isinstance(x, tuple) and pi.index(x) < pi.index(x[1]) for x in pi):
                continue        # restore before its own consume: not an order of the calls
            nperm += 1
            conds = []
            for i in range(len(pi)):
                for j in range(i + 1, len(pi)):
                    a_, b_ = pi[i], pi[j]
                    if base(a_) == base(b_):
                        continue
                    conds.append(z3.And(in_l(a_), in_l(b_), z3.ULT(resp[base(b_)], F.inv[base(a_)])))      # b_ responded before a_ was invoked, yet ordered after it
            flag = z3.BoolVal(False)
            for o in pi:
                if isinstance(o, tuple):
                    flag = z3.If(in_l(o), z3.BoolVal(True), flag)
                    continue
                kind = kinds[o][0]
                if kind == "set":
                    flag = z3.If(inL[o], z3.BoolVal(True), flag)
                elif kind == "reset":
                    flag = z3.If(inL[o], z3.BoolVal(False), flag)
                elif kind == "try":
                    got = F.res[o] == E.BV8(1)
                    conds.append(z3.And(inL[o], got != flag))
                    if flavor == "auto":
                        flag = z3.If(z3.And(inL[o], got), z3.BoolVal(False), flag)
                else:
                    conds.append(z3.And(in_l(o), z3.Not(flag)))
                    if flavor == "auto":
                        flag = z3.If(in_l(o), z3.BoolVal(False), flag)
            conds.append(flag != stored)
            invalid_all.append(z3.Or(*conds))
    c08_violations.nperm = nperm
    v = {}
    v["history has no linearization (signal lost, duplicated or delivered to two; try_wait/wait results inconsistent with any real-time respecting order)"] = z3.And(*invalid_all)
    v["panic / unreachable arm, mutex or waker bookkeeping misuse"] = F.bad != E.N(0)
    v["a waiter is still registered although the signal is stored / the event is set (stuck waiter)"] = z3.And(anyreg, stored)
    v["HAS_WAITERS is clear while the waiter list is not empty (the next set takes the fast path and never wakes it)"] = z3.And(anyreg, (F.curL["state"] & E.BV8(hasw)) == 0)
    woke = []
    for o, (kind, a) in enumerate(kinds):
        if kind == "wait":
            woke.append(z3.And(F.status[o] == E.BV8(1), F.curL["lc%d" % a] == E.BV8(lcn), (F.woken & (E.BV8(1) << F.lastw[a])) == 0))
    if woke:
        v["a notified waiter's latest waker was not invoked"] = z3.Or(*woke)
    regcount = sum([z3.If(F.reg[a], E.N(1), E.N(0)) for a in range(nA)], E.N(0))
    v["waker clones not balanced by drops (leak or double drop)"] = z3.Or(F.cnt["clones"] != F.cnt["wdrops"] + regcount, *[F.hand[t] != 0 for t in range(T)])
    if flavor == "manual":
        lost = []
        for o, (kind, a_) in enumerate(kinds):
            if kind == "set":
                for a in range(nA):
                    lost.append(z3.And(F.status[o] == E.BV8(2), F.reg[a], z3.ULT(F.regstep[a], F.inv[o])))
        if lost:
            v["a waiter registered before a completed set() is still waiting (generation drain missed it)"] = z3.Or(*lost)
    return v


def run_events(args):
    t0 = time.time()
    flavor = args.model.split("_")[1]
    programs = json.loads(args.programs)
    programs = [[tuple(x) if isinstance(x, list) else x for x in p] for p in programs]
    out = dict(scenario="%s: %s" % (flavor, EV.prog_name(programs)), prop=args.prop, verdict=None, queries=[])
    try:
        funcs, afuncs, consts, cfg, find = EV.load(args.mir, args.mir2, REPO, flavor)
        threads, k, opids, kinds, nA = EV.build_scenario(cfg, find, programs)
    except A.Unsupported as e:
        out.update(verdict="unsupported", detail=str(e))
        return out
    out["k_longest_path"] = k
    k = min(k, args.kcap)
    if args.k:
        k = args.k
    for th in threads:
        if th["entry"] == "END":
            th["entry"] = E.END
    locs = ["state"] + ["lc%d" % a for a in range(nA)]
    enc = E.Encoder(threads, k, cells=(), locs=locs, awaiters=nA, nops=len(kinds))
    enc.build()
    out.update(k=k, nodes=[len(th["nodes"]) for th in threads], assertions=enc.n_assert, logical_ops=[kk[0] for kk in kinds],
               functions=sorted({"%s:%s" % (n["op"].get("line", ("?", 0))[0], n["op"]["kind"]) for th in threads for n in th["nodes"].values()}))
    F = enc.final()
    done = enc.done()
    if args.pin:
        order = []
        seen = {}
        for t_ in [int(x) for x in args.pin.split(",")]:
            order.append((t_, seen.get(t_, 0)))
            seen[t_] = seen.get(t_, 0) + 1
        cons = []
        for i in range(enc.k):
            S_ = enc.S[i]
            def in_item(t, j):
                ids = [nid for nid, o in threads[t]["item_of"].items() if o == j]
                return z3.Or(*[S_.pc[t] == E.N(nid) for nid in ids]) if ids else z3.BoolVal(False)
            def finished(u, m_):
                return z3.Not(z3.Or(*[in_item(u, mm) for mm in range(m_ + 1)]))
            for pos, (t, j) in enumerate(order):
                before = order[:pos]
                if before:
                    cons.append(z3.Implies(z3.And(enc.sched[i] == E.N(t), in_item(t, j)), z3.And(*[finished(u, m_) for (u, m_) in before])))
            for t in range(len(threads)):
                n_t = seen.get(t, 0)
                for j in range(n_t, len(programs[t])):
                    cons.append(z3.Implies(enc.sched[i] == E.N(t), z3.Not(in_item(t, j))))
        r, m = enc.check(done, *cons, timeout_s=args.timeout)
        if r != z3.sat:
            out.update(verdict="pin-unsat", detail=str(r))
            return out
        ev = lambda x: m.eval(x, model_completion=True)
        sig = consts["%s::%s" % (flavor, "SIGNALED" if flavor == "auto" else "IS_SET")]
        out.update(verdict="pinned", final=dict(
            tries={"%d.%d" % key: ev(F.res[o]).as_long() for key, o in opids.items() if key[0] != "w" and kinds[o][0] == "try"},
            status=[next((ev(F.status[o]).as_long() for o, (kk, aa) in enumerate(kinds) if kk == "wait" and aa == a), 0) for a in range(4)],
            woken_mask=ev(F.woken).as_long(), live_wakers=ev(F.cnt["clones"]).as_long() - ev(F.cnt["wdrops"]).as_long(),
            stored=(ev(F.curL["state"]).as_long() & sig) != 0, bad=ev(F.bad).as_long()))
        return out
    tq = time.time()
    r, m = enc.check(done, timeout_s=args.timeout)
    out["queries"].append(dict(q="witness: a complete run exists", result=str(r), s=round(time.time() - tq, 2)))
    if r != z3.sat:
        out.update(verdict="vacuous" if r == z3.unsat else "timeout", detail="no complete run within k=%d" % k)
        return out
    droppable = {it[1] for p_ in programs for it in p_ if isinstance(it, tuple) and it[0] == "drop"}
    viol = c08_violations(F, kinds, flavor, consts, len(threads), nA, droppable)
    # History pattern of the recorded known finding (manual-reset only, see known_findings.json):
    # a set() publishes IS_SET before a reset() that completes, a waiter registers after that reset
    # while the set() is still draining, and the drain releases it.
    known = z3.BoolVal(False)
    if flavor == "manual":
        pats = []
        for s_, (ks, _) in enumerate(kinds):
            for r_, (kr, _) in enumerate(kinds):
                for w_, (kw, a_) in enumerate(kinds):
                    if ks == "set" and kr == "reset" and kw == "wait":
                        pats.append(z3.And(F.status[r_] == E.BV8(2), z3.ULT(F.inv[s_], F.inv[r_]), z3.ULT(F.resp[r_], F.regstep[a_]),
                                           z3.ULT(F.regstep[a_], F.resp[s_]), z3.Not(F.reg[a_])))
        if pats:
            known = z3.Or(*pats)
    tq = time.time()
    r, m = enc.check(done, z3.Or(*viol.values()), z3.Not(known), timeout_s=args.timeout)
    out["queries"].append(dict(q="no linearization / named consequence violated at quiescence (%d orders of the calls, cancelled waits as no-op or consume+restore)" % c08_violations.nperm, result=str(r), s=round(time.time() - tq, 2)))
    known_hit = False
    if r == z3.unsat and flavor == "manual":
        tq = time.time()
        r2, m2 = enc.check(done, z3.Or(*viol.values()), known, timeout_s=args.timeout)
        out["queries"].append(dict(q="same, restricted to the history pattern of the recorded known finding", result=str(r2), s=round(time.time() - tq, 2)))
        if r2 == z3.sat:
            r, m, known_hit = r2, m2, True
        elif r2 == z3.unknown:
            r = r2
    if r == z3.unknown:
        out.update(verdict="timeout", detail="solver gave up (%ss)" % args.timeout)
    elif r == z3.unsat:
        out.update(verdict="holds")
    else:
        labels = [lab for lab, e in viol.items() if z3.is_true(m.eval(e, model_completion=True))]
        if known_hit:
            labels = [lab + " {history pattern: set-straddles-reset}" for lab in labels]
        ev = lambda x: m.eval(x, model_completion=True)
        fin = dict(state=ev(F.curL["state"]).as_long(), bad=ev(F.bad).as_long(), woken=ev(F.woken).as_long(),
                   ops=[dict(kind=kinds[o][0], awaiter=kinds[o][1], status=ev(F.status[o]).as_long(), inv=ev(F.inv[o]).as_long(), resp=ev(F.resp[o]).as_long(), res=ev(F.res[o]).as_long()) for o in range(len(kinds))],
                   awaiters=[dict(lifecycle=ev(F.curL["lc%d" % a]).as_long(), registered=str(ev(F.reg[a])), lastw=ev(F.lastw[a]).as_long()) for a in range(nA)],
                   counts={k_: ev(v_).as_long() for k_, v_ in F.cnt.items()})
        out.update(verdict="violation", labels=labels, trace=enc.trace(m), final=fin)
    out["wall_s"] = round(time.time() - t0, 2)
    return out


def run_future_deque(args):
    """C15 slice: waker metadata protocol of future_deque (one slot, deque owner thread || waker thread)."""
    from mirproto import future_deque_model as FD
    t0 = time.time()
    sc_ = json.loads(args.programs)
    fut, own, wk = sc_[:3]
    wdata = sc_[3] if len(sc_) > 3 else None
    own = [tuple(x) if isinstance(x, list) else x for x in own]
    out = dict(scenario=FD.prog_name((fut, own, wk, wdata)), prop=args.prop, verdict=None, queries=[])
    try:
        funcs, cfg, find, init = FD.load(args.mir, REPO, fut, wdata)
        threads, k = FD.build_scenario(cfg, find, own, wk)
    except A.Unsupported as e:
        out.update(verdict="unsupported", detail=str(e))
        return out
    if args.cmd == "automata":
        for t, th in enumerate(threads):
            print("thread", t, "entry", th["entry"], "k", k)
            for nid, n in th["nodes"].items():
                print("  ", nid, {a: b for a, b in n["op"].items() if a not in ("next_bb", "dst", "argvals")}, "->", n["succ"])
        return out
    out["k_longest_path"] = k
    k = min(k, args.kcap)
    if args.k:
        k = args.k
    for th in threads:
        if th["entry"] == "END":
            th["entry"] = E.END
    nwakes = len([x for x in wk if x in ("wake", "wake_by_ref")])
    nops = 1 + nwakes
    iv = dict(ref=init["ref"], act=init["act"], aw_id=FD.NOOP_ID)
    enc = E.Encoder(threads, k, cells=(), locs=("ref", "act", "futn", "chan"), nops=nops, init_vals=iv)
    enc.build()
    out.update(k=k, nodes=[len(th["nodes"]) for th in threads], assertions=enc.n_assert, init=init,
               functions=sorted({"%s:%s" % ((n["op"].get("line") or ("scripted-future", 0))[0], n["op"]["kind"]) for th in threads for n in th["nodes"].values()}))
    F = enc.final()
    done = enc.done()
    T = len(threads)
    wlive = FD.holds_ref_at_end(wk)
    polls = [x for x in own if isinstance(x, tuple) and x[0] == "poll"]
    k_last = int(polls[-1][1]) if polls else 0
    dlive = z3.If(F.outcome == E.BV8(12), E.BV8(2), E.BV8(0))
    live = dlive + E.BV8(wlive)
    v = {}
    v["panic / unreachable arm, counter out of range, mutex or waker bookkeeping misuse"] = z3.And(F.bad != E.N(0), F.bad != E.N(E.BAD_AFTER_RELEASE))
    v["waker metadata accessed after its pool slot was released"] = F.bad == E.N(E.BAD_AFTER_RELEASE)
    v["metadata slot released without happens-before from the other thread's last access"] = F.race == E.N(E.RACE_RELEASE)
    v["reference count does not equal the live references / slot not released exactly when the last reference goes"] = z3.Or(
        F.curL["ref"] != live, F.cnt["released"] != z3.If(live == E.BV8(0), E.N(1), E.N(0)))
    v["parent waker clones not dropped exactly once"] = z3.Or(F.cnt["clones"] != F.cnt["wdrops"], *[F.hand[t] != 0 for t in range(T)])
    started = [F.status[E_] != E.BV8(0) for E_ in range(1, nops)]
    late = [z3.And(started[j], z3.UGT(F.inv[1 + j], F.inv[0])) for j in range(nwakes)]
    if nwakes and k_last:
        woke_last = z3.Or(*[z3.And(late[j], F.res[1 + j] == E.BV8(k_last)) for j in range(nwakes)])
        v["lost wake-up: a wake that came after the deque last consumed the slot's activation left the slot not activated, or no such wake invoked the deque's latest task waker"] = z3.And(
            F.outcome == E.BV8(12), z3.Or(*late), z3.Not(z3.And(F.curL["act"] == E.BV8(1), woke_last)))
    nstarted = sum([z3.If(c, E.BV8(1), E.BV8(0)) for c in started], E.BV8(0))
    v["contained future polled although it was neither just inserted nor woken"] = z3.UGT(F.curL["futn"], E.BV8(1) + nstarted)
    if args.pin:
        # sequential translation validation: items run one at a time in the given global order (list of thread ids;
        # owner items: push, polls / drop; waker thread items: hand-off receive, then its operations)
        order, seen = [], {}
        for t_ in [int(x) for x in args.pin.split(",")]:
            order.append((t_, seen.get(t_, 0)))
            seen[t_] = seen.get(t_, 0) + 1
        cons = []
        for i_ in range(enc.k):
            S_ = enc.S[i_]

            def in_item(t, j_):
                ids = [nid for nid, o in threads[t]["item_of"].items() if o == j_]
                return z3.Or(*[S_.pc[t] == E.N(nid) for nid in ids]) if ids else z3.BoolVal(False)

            def finished(u, m_):
                return z3.Not(z3.Or(*[in_item(u, mm) for mm in range(m_ + 1)]))
            for pos, (t, j_) in enumerate(order):
                if order[:pos]:
                    cons.append(z3.Implies(z3.And(enc.sched[i_] == E.N(t), in_item(t, j_)), z3.And(*[finished(u, m_) for (u, m_) in order[:pos]])))
        r, m = enc.check(done, *cons, timeout_s=args.timeout)
        if r != z3.sat:
            out.update(verdict="pin-unsat", detail=str(r))
            return out
        ev = lambda x: m.eval(x, model_completion=True)
        invoked = [ev(F.res[1 + j_]).as_long() for j_ in range(nwakes)]
        out.update(verdict="pinned", final=dict(future_polls=ev(F.curL["futn"]).as_long(), woken=[invoked.count(1), invoked.count(2)], bad=ev(F.bad).as_long(), race=ev(F.race).as_long(),
                                                ref_count=ev(F.curL["ref"]).as_long(), released=ev(F.cnt["released"]).as_long()))
        return out
    tq = time.time()
    r, m = enc.check(done, timeout_s=args.timeout)
    out["queries"].append(dict(q="witness: a complete run exists", result=str(r), s=round(time.time() - tq, 2)))
    if r != z3.sat:
        out.update(verdict="vacuous" if r == z3.unsat else "timeout", detail="no complete run within k=%d" % k)
        return out
    if nwakes and k_last and "ready" not in fut and "drop" not in own:
        tq = time.time()
        r, m = enc.check(done, z3.Or(*late), F.outcome == E.BV8(12), timeout_s=args.timeout)
        out["queries"].append(dict(q="witness: a wake after the last consumed activation exists", result=str(r), s=round(time.time() - tq, 2)))
        if r != z3.sat:
            out.update(verdict="vacuous" if r == z3.unsat else "timeout", detail="the lost-wake-up monitor's antecedent is unreachable")
            return out
    tq = time.time()
    r, m = enc.check(done, z3.Or(*v.values()), timeout_s=args.timeout)
    out["queries"].append(dict(q="violation of %s at quiescence" % args.prop, result=str(r), s=round(time.time() - tq, 2)))
    if r == z3.unknown:
        out.update(verdict="timeout", detail="solver gave up (%ss)" % args.timeout)
    elif r == z3.unsat:
        out.update(verdict="holds")
    else:
        ev = lambda x: m.eval(x, model_completion=True)
        labels = [lab for lab, e in v.items() if z3.is_true(ev(e))]
        fin = dict(bad=ev(F.bad).as_long(), race=ev(F.race).as_long(), ref_count=ev(F.curL["ref"]).as_long(), activated=ev(F.curL["act"]).as_long(),
                   future_polls=ev(F.curL["futn"]).as_long(), owner_refs_live=ev(dlive).as_long(), waker_thread_refs_live=wlive, parent_waker=ev(F.aw_id).as_long(),
                   woken_mask=ev(F.woken).as_long(), last_consumed_activation_step=ev(F.inv[0]).as_long(),
                   wakes=[dict(started=str(ev(started[j])), swap_step=ev(F.inv[1 + j]).as_long(), parent_invoked=ev(F.res[1 + j]).as_long()) for j in range(nwakes)],
                   counts={k_: ev(v_).as_long() for k_, v_ in F.cnt.items()})
        out.update(verdict="violation", labels=labels, trace=enc.trace(m), final=fin)
    out["wall_s"] = round(time.time() - t0, 2)
    return out


def run_region_cached(args):
    """C13 slice: RegionCached write / regional initialisation protocol (from MIR)."""
    from mirproto import region_cached_model as RC
    t0 = time.time()
    nreg, ini, progs = json.loads(args.programs)
    out = dict(scenario=RC.prog_name((nreg, ini, progs)), prop=args.prop, verdict=None, queries=[])
    try:
        funcs, cfg, find, init = RC.load(args.mir, REPO, nreg)
        threads, k, kinds = RC.build_scenario(cfg, find, progs)
    except A.Unsupported as e:
        out.update(verdict="unsupported", detail=str(e))
        return out
    if args.cmd == "automata":
        for t, th in enumerate(threads):
            print("thread", t, "entry", th["entry"], "k", k)
            for nid, n in th["nodes"].items():
                print("  ", nid, {a: b for a, b in n["op"].items() if a not in ("next_bb", "dst", "argvals", "result_value")}, "->", n["succ"])
        return out
    out["k_longest_path"] = k
    k = min(k, args.kcap)
    if args.k:
        k = args.k
    for th in threads:
        if th["entry"] == "END":
            th["entry"] = E.END
    locs = ["gen", "latest"] + ["reg%d" % r for r in range(nreg)]
    iv = dict(gen=init["gen"], latest=init["latest"])
    for r in range(nreg):
        iv["reg%d" % r] = RC.NONE if ini[r] == "none" else 2 + init["latest"]
    flat = [kk for th in kinds for kk in th]
    enc = E.Encoder(threads, k, cells=(), locs=locs, nops=len(flat), init_vals=iv)
    enc.build()
    out.update(k=k, nodes=[len(th["nodes"]) for th in threads], assertions=enc.n_assert, init=init,
               functions=sorted({"%s:%s" % ((n["op"].get("line") or ("-", 0))[0], n["op"]["kind"]) for th in threads for n in th["nodes"].values()}))
    F = enc.final()
    done = enc.done()
    v = {}
    v["panic / unreachable arm or a value outside the modelled range"] = F.bad != E.N(0)
    v["persistent staleness: all writes and reads have finished, yet a region serves a generation that is not the latest written (or is stuck initialising)"] = z3.Or(
        *[z3.And(F.curL["reg%d" % r] != E.BV8(RC.NONE), F.curL["reg%d" % r] != E.BV8(2) + F.curL["latest"]) for r in range(nreg)])
    writers = [t for t, th in enumerate(kinds) if any(kk[0] == "set" for kk in th)]
    base = 0
    own, order = [], []
    for t, th in enumerate(kinds):
        for i, kk in enumerate(th):
            if kk[0] == "read" and i > 0 and th[i - 1][0] == "set" and writers == [t]:
                own.append(F.res[base + i] != F.res[base + i - 1])
            if kk[0] == "read" and len(writers) == 1:
                for j in range(i):
                    if th[j][0] == "read" and th[j][1] == kk[1]:
                        order.append(z3.ULT(F.res[base + i], F.res[base + j]))
        base += len(th)
    # the model identifies a payload with its generation (and so does the code's staleness test): generations must be unique
    sets = [o for o, kk in enumerate(flat) if kk[0] == "set"]
    dup = [z3.And(F.status[o] == E.BV8(2), F.res[o] == E.BV8(init["latest"])) for o in sets]
    dup += [z3.And(F.status[a] == E.BV8(2), F.status[b] == E.BV8(2), F.res[a] == F.res[b]) for i_, a in enumerate(sets) for b in sets[i_ + 1:]]
    if dup:
        v["two different values carry the same generation (the staleness test compares generations only, so a stale copy can pass for the latest)"] = z3.Or(*dup)
    if own:
        # F.recv_gone = "some thread installed a regional copy whose generation was no longer the latest" (history flag)
        v["a pinned thread did not observe its own write although nobody else wrote"] = z3.And(z3.Or(*own), z3.Not(F.recv_gone))
        v["a pinned thread did not observe its own write: another thread installed an outdated regional copy behind the writer's invalidation"] = z3.And(z3.Or(*own), F.recv_gone)
    if order:
        v["a reader observed the single writer's values out of order"] = z3.Or(*order)
    if args.pin:
        # sequential translation validation: the items run one at a time in the given global order (list of thread ids)
        order, seen = [], {}
        for t_ in [int(x) for x in args.pin.split(",")]:
            order.append((t_, seen.get(t_, 0)))
            seen[t_] = seen.get(t_, 0) + 1
        cons = []
        for i_ in range(enc.k):
            S_ = enc.S[i_]

            def in_item(t, j_):
                ids = [nid for nid, o in threads[t]["item_of"].items() if o == j_]
                return z3.Or(*[S_.pc[t] == E.N(nid) for nid in ids]) if ids else z3.BoolVal(False)

            def finished(u, m_):
                return z3.Not(z3.Or(*[in_item(u, mm) for mm in range(m_ + 1)]))
            for pos, (t, j_) in enumerate(order):
                if order[:pos]:
                    cons.append(z3.Implies(z3.And(enc.sched[i_] == E.N(t), in_item(t, j_)), z3.And(*[finished(u, m_) for (u, m_) in order[:pos]])))
        r, m = enc.check(done, *cons, timeout_s=args.timeout)
        if r != z3.sat:
            out.update(verdict="pin-unsat", detail=str(r))
            return out
        ev = lambda x: m.eval(x, model_completion=True)
        base_of_thread, b_ = [], 0
        for th in kinds:
            base_of_thread.append(b_)
            b_ += len(th)
        reads = [ev(F.res[base_of_thread[t] + j_]).as_long() for (t, j_) in order if kinds[t][j_][0] == "read"]
        out.update(verdict="pinned", final=dict(reads=reads, bad=ev(F.bad).as_long(), regions=[ev(F.curL["reg%d" % r_]).as_long() for r_ in range(nreg)], latest=ev(F.curL["latest"]).as_long()))
        return out
    tq = time.time()
    r, m = enc.check(done, timeout_s=args.timeout)
    out["queries"].append(dict(q="witness: a complete run exists", result=str(r), s=round(time.time() - tq, 2)))
    if r != z3.sat:
        out.update(verdict="vacuous" if r == z3.unsat else "timeout", detail="no complete run within k=%d" % k)
        return out
    KNOWN_PATTERN = "behind the writer's invalidation"
    outside = [e for lab, e in v.items() if KNOWN_PATTERN not in lab]
    inside = [e for lab, e in v.items() if KNOWN_PATTERN in lab]
    tq = time.time()
    r, m = enc.check(done, z3.Or(*outside), timeout_s=args.timeout)
    out["queries"].append(dict(q="violation of %s at quiescence (outside the known-finding history pattern)" % args.prop, result=str(r), s=round(time.time() - tq, 2)))
    if r == z3.unsat and inside:
        tq = time.time()
        r2, m2 = enc.check(done, z3.Or(*inside), timeout_s=args.timeout)
        out["queries"].append(dict(q="history of the known-finding pattern exists", result=str(r2), s=round(time.time() - tq, 2)))
        if r2 == z3.sat:
            r, m = r2, m2
        elif r2 == z3.unknown:
            r = r2
    if r == z3.unknown:
        out.update(verdict="timeout", detail="solver gave up (%ss)" % args.timeout)
    elif r == z3.unsat:
        out.update(verdict="holds")
    else:
        ev = lambda x: m.eval(x, model_completion=True)
        labels = [lab for lab, e in v.items() if z3.is_true(ev(e))]
        fin = dict(bad=ev(F.bad).as_long(), latest_generation=ev(F.curL["latest"]).as_long(), next_generation=ev(F.curL["gen"]).as_long(),
                   regions=[ev(F.curL["reg%d" % r]).as_long() for r in range(nreg)],
                   ops=[dict(kind=list(flat[o]), generation=ev(F.res[o]).as_long(), done=ev(F.status[o]).as_long() == 2) for o in range(len(flat))])
        out.update(verdict="violation", labels=labels, trace=enc.trace(m), final=fin)
    out["wall_s"] = round(time.time() - t0, 2)
    return out


def main():
    ap = argparse.ArgumentParser()
    ap.add_argument("cmd", choices=["scenario", "fingerprint", "automata"])
    ap.add_argument("--mir", required=True)
    ap.add_argument("--prop", default="C05")
    ap.add_argument("--sender", default="send")
    ap.add_argument("--recv", default="poll1", type=lambda s: [x for x in s.split(",") if x])
    ap.add_argument("--k", type=int, default=0)
    ap.add_argument("--timeout", type=float, default=600)
    ap.add_argument("--stale", action="store_true", help="message-history model with stale reads (slow; cross-check only). Default: one atomic location => coherence makes value reads SC; happens-before is tracked with vector clocks either way")
    ap.add_argument("--kcap", type=int, default=22)
    ap.add_argument("--pin", default=None, help="events_once: run the operations one at a time in this order (comma list of S|R) and print the final tuple")
    ap.add_argument("--model", default="events_once")
    ap.add_argument("--mir2", default=None, help="MIR dump of awaiter_set (events models)")
    ap.add_argument("--programs", default="[]", help="events models: JSON list of per-thread item lists")
    args = ap.parse_args()
    if args.cmd == "fingerprint" and args.model == "awaiter_set":
        from mirproto import mir as MM
        import re as _re
        out = {}
        for k_, f_ in MM.parse(args.mir).items():
            if _re.search(r"^(set|awaiter)::<impl at [^>]*(set|awaiter)\.rs:\d+:\d+: \d+:\d+>::(register|unregister|notify_one|notify_one_prior_generation|advance_generation|is_empty|remove|unlink|pick_one|set_lifecycle|lifecycle_phase|new)$", k_):
                out[k_.split("::")[0] + "::" + k_.split(">::")[-1]] = EO.fingerprint(f_)[0]
        print(json.dumps(out))
        return
    if args.cmd == "fingerprint" and args.model in ("events_auto", "events_manual"):
        from mirproto import mir as MM
        print(json.dumps(EV.wrapper_fingerprints(MM.parse(args.mir), args.model.split("_")[1])))
        return
    if args.cmd == "scenario" and args.model in ("events_auto", "events_manual"):
        print(json.dumps(run_events(args)))
        return
    if args.model == "region_cached":
        if args.cmd == "fingerprint":
            print(json.dumps({"region_cached": "interpreted-from-mir"}))
            return
        r_ = run_region_cached(args)
        if args.cmd == "scenario":
            print(json.dumps(r_))
        return
    if args.model == "future_deque":
        if args.cmd == "fingerprint":
            print(json.dumps({"future_deque": "interpreted-from-mir"}))
            return
        r_ = run_future_deque(args)
        if args.cmd == "scenario":
            print(json.dumps(r_))
        return
    if args.cmd == "fingerprint":
        # events_once has no hand-modelled code any more: the endpoint wrappers are interpreted from
        # their MIR like the protocol functions (anything the interpreter does not know aborts with
        # "unsupported" = no verdict), so there is nothing to pin.
        EO.load(args.mir, REPO)
        print(json.dumps({"endpoint-wrappers": "interpreted-from-mir"}))
        return
    if args.cmd == "automata":
        funcs, consts, cfg, find = EO.load(args.mir, REPO)
        threads, k = EO.build_scenario(cfg, find, args.sender, args.recv)
        for t, th in enumerate(threads):
            print("thread", t, "entry", th["entry"], "k", k)
            for nid, n in th["nodes"].items():
                print("  ", nid, {a: b for a, b in n["op"].items() if a not in ("next_bb", "dst", "argvals")}, "->", n["succ"])
        return
    print(json.dumps(run_scenario(args)))


if __name__ == "__main__":
    main()
