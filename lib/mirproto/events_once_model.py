"""events_once (thread-safe one-shot event): scenarios, endpoint wrappers, monitors (C05, C06).

Both the protocol functions of core/sync.rs and the six endpoint wrappers of sync_sender.rs /
sync_receiver.rs (send, drop; poll, is_ready, into_value, drop) are interpreted from the MIR dump.
The wrappers keep the endpoint's event reference (`E` / `Option<E>`) as per-operation object state
that is carried from one operation of a thread program to the next; `release_event` is a visible
step. Nothing of events_once is modelled by hand (the structural fingerprint code below is still
used for the awaiter-set contract of the reset events)."""
import hashlib
import json
import os
import re

from . import auto as A
from . import mir as M

SYNC_RS = "packages/events_once/src/core/sync.rs"
OUT_VALUE, OUT_DISCONNECTED = 1, 2


def load(mir_path, repo):
    funcs = M.parse(mir_path)
    consts = M.consts_from_source(os.path.join(repo, "packages/events_once/src/core/state.rs"))
    need = ("EVENT_BOUND", "EVENT_SET", "EVENT_AWAITING", "EVENT_SIGNALING", "EVENT_DISCONNECTED")
    for n in need:
        if n not in consts:
            raise A.Unsupported("constant %s not found in state.rs" % n)

    def find(name):
        c = [f for k, f in funcs.items() if re.search(r"^core::sync::<impl at [^>]*sync\.rs:\d+:\d+: \d+:\d+>::" + re.escape(name) + "$", k)]
        if len(c) != 1:
            raise A.Unsupported("function Event::%s not found exactly once in the MIR dump (%d)" % (name, len(c)))
        return c[0]

    def find_in(module, name):
        c = [f for k, f in funcs.items() if re.search(r"^" + module + r"::<impl at [^>]*" + module + r"\.rs:\d+:\d+: \d+:\d+>::" + re.escape(name) + "$", k)]
        if len(c) != 1:
            raise A.Unsupported("function %s::%s not found exactly once in the MIR dump (%d)" % (module, name, len(c)))
        return c[0]

    def resolve(callee):
        m = re.match(r"^core::sync::Event::<T>::(\w+)$", callee)
        if m:
            return find(m.group(1))
        m = re.match(r"^sync_(receiver|sender)::(?:Receiver|Sender)Core::<E, T>::(\w+)$", callee)
        if m:
            return find_in("sync_" + m.group(1), m.group(2))
        return None

    def extra_visible(callee, args, fr, vals):
        if re.search(r"<E as (?:core::)?sync_refs::EventRef<T>>::release_event$", callee):
            return dict(kind="RELEASE")
        return None

    def is_enum(v, *names):
        return isinstance(v, tuple) and len(v) >= 2 and v[0] == "ENUM" and (not names or v[1] in names)

    def extra_call(interp, callee, vals, fr, dst):
        """Pure std callees the endpoint wrappers use (Option / Context / Result plumbing)."""
        def out(v):
            if dst:
                fr.env[dst] = v
            return True
        if re.match(r"^<E as Deref>::deref$", callee):
            return out("EVENTCELL")          # &UnsafeCell<Event<T>>: the one shared event of the scenario
        if re.match(r"^Option::<E>::take$", callee):
            r = vals[0]
            if not (isinstance(r, tuple) and r and r[0] == "FIELDREF"):
                raise A.Unsupported("Option::take on %r" % (r,))
            key = "@%s.%s" % (r[1], r[2])
            v = interp.obj_field(fr, r[1], r[2])
            fr.env[key] = ("ENUM", "None")
            return out(v)
        if re.match(r"^Option::<E>::as_ref$", callee):
            v = interp.deref_alias(fr, vals[0])
            if not is_enum(v, "Some", "None"):
                raise A.Unsupported("Option::as_ref on %r" % (v,))
            return out(v)
        if re.match(r"^Option::<.*>::(expect|unwrap)$", callee) or re.match(r"^Result::<.*>::(expect|unwrap)$", callee):
            v = interp.deref_alias(fr, vals[0])
            if is_enum(v, "Some", "Ok"):
                return out(v[2] if len(v) > 2 else None)
            raise A.Unsupported("expect/unwrap on %r in %s (panic path or untracked value)" % (v, fr.func.short()))
        if re.match(r"^Option::<.*>::(is_some|is_none)$", callee):
            v = interp.deref_alias(fr, vals[0])
            if not is_enum(v, "Some", "None"):
                raise A.Unsupported("%s on %r" % (callee, v))
            return out(int((v[1] == "Some") == callee.endswith("is_some")))
        if re.match(r"^Context::<'_>::waker$", callee):
            v = interp.deref_alias(fr, vals[0])
            if not (isinstance(v, tuple) and v and v[0] == "CONTEXT"):
                raise A.Unsupported("Context::waker on %r" % (v,))
            return out(("WAKERREF", v[1]))
        if re.match(r"^<Result<\(\), (?:core::)?disconnected::Disconnected> as PartialEq>::eq$", callee):
            a, b = interp.deref_alias(fr, vals[0]), interp.deref_alias(fr, vals[1])
            if not (is_enum(a, "Ok", "Err") and is_enum(b, "Ok", "Err")):
                raise A.Unsupported("Result::eq on %r, %r" % (a, b))
            return out(int(a[1] == b[1]))
        m = re.match(r"^Option::<.*>::map_or_else::<.*\{closure@([^}]*)\}, fn\(.*$", callee)
        if m:
            v = interp.deref_alias(fr, vals[0])
            if is_enum(v, "None"):
                cl = [f for k, f in funcs.items() if ("{closure@%s}" % m.group(1)) in f.sig.split(") -> ")[0] and "::{closure#" in k]
                if len(cl) != 1 or list(cl[0].blocks) != ["bb0"]:
                    raise A.Unsupported("map_or_else default closure %s not a single straight block" % m.group(1))
                tmp = A.Frame(cl[0], {})
                for (text, _) in cl[0].blocks["bb0"].stmts:
                    interp.stmt(tmp, text)
                return out(tmp.env.get("_0"))
            if is_enum(v, "Some") and re.search(r"Poll::<.*>::Ready$", callee.split("fn(")[0]) is None:
                # the mapping function is the third operand; it is accepted only if it is the Poll::Ready constructor
                pass
            if is_enum(v, "Some"):
                return out(("ENUM", "Ready", v[2]))
            raise A.Unsupported("map_or_else on %r" % (v,))
        return False

    cfg = A.Config(funcs, consts, resolve, extra_visible=extra_visible, extra_call=extra_call, extra_pure=("drop_in_place::<E>",))
    cfg.find_in = find_in
    return funcs, consts, cfg, find


# ----- wrapper fingerprint ----------------------------------------------------------------------
WRAPPERS = {
    "SenderCore::send": r"^sync_sender::<impl at [^>]*sync_sender\.rs:\d+:\d+: \d+:\d+>::send$",
    "SenderCore::drop": r"^sync_sender::<impl at [^>]*sync_sender\.rs:\d+:\d+: \d+:\d+>::drop$",
    "ReceiverCore::poll": r"^sync_receiver::<impl at [^>]*sync_receiver\.rs:\d+:\d+: \d+:\d+>::poll$",
    "ReceiverCore::is_ready": r"^sync_receiver::<impl at [^>]*sync_receiver\.rs:\d+:\d+: \d+:\d+>::is_ready$",
    "ReceiverCore::into_value": r"^sync_receiver::<impl at [^>]*sync_receiver\.rs:\d+:\d+: \d+:\d+>::into_value$",
    "ReceiverCore::drop": r"^sync_receiver::<impl at [^>]*sync_receiver\.rs:\d+:\d+: \d+:\d+>::drop$",
}


def fingerprint(func):
    """Callees (normalised), switch shapes and constants of a wrapper's non-cleanup blocks."""
    items = []
    for name, blk in func.blocks.items():
        if blk.cleanup or blk.term is None:
            continue
        t = blk.term[0]
        m = re.match(r"^(?:.+? = )?(.+?)\((.*)\) -> ", t)
        if m and not t.startswith(("switchInt", "drop(", "assert(")):
            callee = re.sub(r"<impl at [^>]*>", "<impl>", m.group(1))
            callee = re.sub(r"\{closure@[^}]*\}", "{closure}", callee)
            items.append("call:" + callee)
        elif t.startswith("switchInt"):
            keys = re.findall(r"(\d+|otherwise):", t)
            items.append("switch:" + ",".join(keys))
        for (s, _) in blk.stmts:
            for c in re.findall(r"const (?:core::state::)?(EVENT_[A-Z]+)", s):
                items.append("const:" + c)
            for c in re.findall(r"Ordering::(\w+)", s):
                items.append("ord:" + c)
        for c in re.findall(r"const (?:core::state::)?(EVENT_[A-Z]+)", t):
            items.append("const:" + c)
    items.sort()
    return hashlib.sha256("\n".join(items).encode()).hexdigest()[:16], items


def wrapper_fingerprints(funcs):
    out = {}
    for label, pat in WRAPPERS.items():
        c = [f for k, f in funcs.items() if re.search(pat, k)]
        if len(c) != 1:
            raise A.Unsupported("wrapper %s not found exactly once in the MIR dump (%d)" % (label, len(c)))
        out[label] = fingerprint(c[0])[0]
    return out


# ----- thread programs --------------------------------------------------------------------------
class ThreadBuilder:
    """Composes the automata of a sequence of endpoint operations into one thread program."""

    def __init__(self, cfg, find):
        self.cfg, self.find = cfg, find
        self.interp = A.Interp(cfg)
        self.nodes = {}
        self.next_id = 0
        self.cur_op = 0
        self.op_of = {}          # node id -> index of the endpoint operation it belongs to

    def new_node(self, op, succ=None):
        nid = self.next_id
        self.next_id += 1
        self.nodes[nid] = dict(op=op, succ=succ or {})
        self.op_of[nid] = self.cur_op
        return nid

    def func_automaton(self, fname, args, on_return):
        """Instantiates Event::fname(args); `on_return(retval)` gives the continuation target."""
        b = A.Builder(self.interp)
        entry = b.start(self.find(fname), args)
        remap = {}
        for n in b.nodes:
            remap[n.id] = self.new_node(dict(n.op))
        cont = {}

        def conv(x):
            if isinstance(x, int):
                return remap[x]
            if x[0] == "PANIC":
                return x
            key = repr(x[1])
            if key not in cont:
                cont[key] = on_return(x[1])
            return cont[key]
        for n in b.nodes:
            self.nodes[remap[n.id]]["succ"] = {k: conv(v) for k, v in n.succ.items()}
        return conv(entry) if not isinstance(entry, int) else remap[entry]

    # --- the endpoint wrappers (sync_sender.rs / sync_receiver.rs), interpreted from their MIR ---
    # The endpoint object (SenderCore / ReceiverCore) is ("OBJ", name); its field 0 (the event
    # reference, `E` for the sender and `Option<E>` for the receiver) lives in the entry frame of each
    # operation under "@name.0" and is carried from one operation to the next.
    def wrapper_automaton(self, module, fname, args, on_return):
        fn = self.cfg.find_in(module, fname)
        saved = self.find
        self.find = lambda _n: fn
        try:
            return self.func_automaton(fname, args, on_return)
        finally:
            self.find = saved

    @staticmethod
    def split_ret(v):
        if isinstance(v, tuple) and v and v[0] == "WITHOBJ":
            return v[1], dict(v[2])
        return v, {}

    def sender(self, op):
        done = dict(sender_done=True)
        obj = {"_1": ("OBJ", "send"), "@send.0": "EREF"}

        def ret(v):
            return self.new_node(dict(kind="NOP", ghost=done), {None: "END"})
        if op == "send":
            return self.wrapper_automaton("sync_sender", "send", dict(obj, _2=A.VALUE), ret)
        return self.wrapper_automaton("sync_sender", "drop", obj, ret)

    def receiver(self, ops):
        """ops: list of 'poll1' | 'poll2' | 'poll3' | 'is_ready' | 'into_value' | 'drop'; after the
        list the receiver stays alive (pending) unless an op consumed it."""
        return self.recv_from(ops, 0, A.freeze({"@recv.0": ("ENUM", "Some", "EREF")}))

    def recv_from(self, ops, i, objs):
        if i >= len(ops):
            return "END"
        saved = self.cur_op
        self.cur_op = i
        try:
            return self._recv_from(ops, i, objs)
        finally:
            self.cur_op = saved

    def _recv_from(self, ops, i, objs):
        op = ops[i]
        state = dict(objs)
        if state.get("@recv.0") != ("ENUM", "Some", "EREF"):
            raise A.Unsupported("receiver operation %s on a consumed receiver (state %r)" % (op, state))
        args = dict(state, _1=("OBJ", "recv"))
        gone = dict(recv_gone=True, last_pending=0)

        def after(ghost, st):
            """ghost stamp of the finished operation, then the next operation (or the end)"""
            consumed = st.get("@recv.0") == ("ENUM", "None") or not st
            g = dict(ghost)
            if consumed:
                g.update(gone)
            tgt = "END" if consumed else self.recv_from(ops, i + 1, A.freeze(st))
            return self.new_node(dict(kind="NOP", ghost=g), {None: tgt})
        if op.startswith("poll"):
            w = int(op[4:])

            def ret(v):
                v, st = self.split_ret(v)
                if v == ("ENUM", "Pending"):
                    return after(dict(last_pending=w), st)
                if isinstance(v, tuple) and v[:2] == ("ENUM", "Ready"):
                    inner = v[2]
                    if inner == ("ENUM", "Ok", A.VALUE):
                        return after(dict(outcome=OUT_VALUE, delivered=1), st)
                    if isinstance(inner, tuple) and inner[:2] == ("ENUM", "Err"):
                        return after(dict(outcome=OUT_DISCONNECTED), st)
                raise A.Unsupported("unexpected poll result %r" % (v,))
            return self.wrapper_automaton("sync_receiver", "poll", dict(args, _2=("CONTEXT", w)), ret)
        if op == "is_ready":
            def ret(v):
                v, st = self.split_ret(v)
                if v not in (0, 1):
                    raise A.Unsupported("unexpected is_ready result %r" % (v,))
                return after({}, st)
            return self.wrapper_automaton("sync_receiver", "is_ready", args, ret)
        if op == "drop":
            def ret(v):
                v, st = self.split_ret(v)
                if st.get("@recv.0") != ("ENUM", "None"):
                    raise A.Unsupported("receiver drop left the event reference in place: %r" % (st,))
                return after({}, st)
            return self.wrapper_automaton("sync_receiver", "drop", args, ret)
        if op == "into_value":
            def ret(v):
                v, st = self.split_ret(v)
                if v == ("ENUM", "Ok", A.VALUE):
                    return after(dict(outcome=OUT_VALUE, delivered=1), st)
                if v == ("ENUM", "Err", ("ENUM", "Pending", ("OBJ", "recv"))):
                    return after({}, st)            # receiver handed back, still usable
                if v == ("ENUM", "Err", None):      # IntoValueError::Disconnected
                    return after(dict(outcome=OUT_DISCONNECTED), st)
                raise A.Unsupported("unexpected into_value result %r" % (v,))
            return self.wrapper_automaton("sync_receiver", "into_value", args, ret)
        raise ValueError(op)


def longest_path(nodes, entry):
    """longest acyclic path length (in nodes) from entry; loops (spins) add a fixed allowance"""
    memo = {}
    onstack = set()
    loops = [0]

    def go(n):
        if not isinstance(n, int):
            return 0
        if n in memo:
            return memo[n]
        if n in onstack:
            loops[0] += 1
            return 0
        onstack.add(n)
        best = 0
        for x in nodes[n]["succ"].values():
            best = max(best, go(x))
        onstack.discard(n)
        memo[n] = best + 1
        return memo[n]
    return go(entry), loops[0]


RECEIVER_PROGRAMS_QUICK = [
    ["drop"], ["poll1"], ["poll1", "drop"], ["poll1", "poll2"], ["is_ready", "poll1"], ["into_value", "drop"], ["poll1", "into_value"],
]
RECEIVER_PROGRAMS_THOROUGH = RECEIVER_PROGRAMS_QUICK + [
    ["poll1", "poll2", "drop"], ["poll1", "poll1"], ["poll1", "poll2", "poll3"], ["is_ready", "poll1", "drop"], ["poll1", "is_ready", "into_value"],
    ["into_value", "poll1", "drop"], ["poll1", "into_value", "drop"], ["into_value", "into_value"], ["poll1", "poll2", "into_value"],
]
SENDER_OPS = ["send", "drop"]


def scenario_name(sender_op, recv_ops):
    return "S:%s|R:%s" % (sender_op, ",".join(recv_ops))


def build_scenario(cfg, find, sender_op, recv_ops):
    tb0 = ThreadBuilder(cfg, find)
    e0 = tb0.sender(sender_op)
    tb1 = ThreadBuilder(cfg, find)
    e1 = tb1.receiver(recv_ops)
    threads = [dict(nodes=tb0.nodes, entry=e0, op_of=tb0.op_of), dict(nodes=tb1.nodes, entry=e1, op_of=tb1.op_of)]
    k = 0
    for th in threads:
        lp, loops = longest_path(th["nodes"], th["entry"])
        k += lp + 2 * min(loops, 2)
    return threads, k
