"""events_once (thread-safe one-shot event): scenarios, endpoint wrappers, monitors (C05, C06).

The protocol functions of core/sync.rs are taken from the MIR dump; the four endpoint wrappers of
sync_sender.rs / sync_receiver.rs (which only decide whether `release_event` is called from the
protocol function's result) are modelled here and pinned by a structural fingerprint of their MIR:
if a wrapper changes, the check stops with "no verdict" instead of silently using a stale model."""
import hashlib
import json
import os
import re

from . import auto as A
from . import mir as M

SYNC_RS = "packages/events_once/src/core/sync.rs"
OUT_VALUE, OUT_DISCONNECTED = 1, 2


def load(mir_path, repo):
    funcs = M.parse(mir_path)
    consts = M.consts_from_source(os.path.join(repo, "packages/events_once/src/core/state.rs"))
    need = ("EVENT_BOUND", "EVENT_SET", "EVENT_AWAITING", "EVENT_SIGNALING", "EVENT_DISCONNECTED")
    for n in need:
        if n not in consts:
            raise A.Unsupported("constant %s not found in state.rs" % n)

    def find(name):
        c = [f for k, f in funcs.items() if re.search(r"^core::sync::<impl at [^>]*sync\.rs:\d+:\d+: \d+:\d+>::" + re.escape(name) + "$", k)]
        if len(c) != 1:
            raise A.Unsupported("function Event::%s not found exactly once in the MIR dump (%d)" % (name, len(c)))
        return c[0]

    def resolve(callee):
        m = re.match(r"^core::sync::Event::<T>::(\w+)$", callee)
        return find(m.group(1)) if m else None

    cfg = A.Config(funcs, consts, resolve)
    return funcs, consts, cfg, find


# ----- wrapper fingerprint ----------------------------------------------------------------------
WRAPPERS = {
    "SenderCore::send": r"^sync_sender::<impl at [^>]*sync_sender\.rs:\d+:\d+: \d+:\d+>::send$",
    "SenderCore::drop": r"^sync_sender::<impl at [^>]*sync_sender\.rs:\d+:\d+: \d+:\d+>::drop$",
    "ReceiverCore::poll": r"^sync_receiver::<impl at [^>]*sync_receiver\.rs:\d+:\d+: \d+:\d+>::poll$",
    "ReceiverCore::is_ready": r"^sync_receiver::<impl at [^>]*sync_receiver\.rs:\d+:\d+: \d+:\d+>::is_ready$",
    "ReceiverCore::into_value": r"^sync_receiver::<impl at [^>]*sync_receiver\.rs:\d+:\d+: \d+:\d+>::into_value$",
    "ReceiverCore::drop": r"^sync_receiver::<impl at [^>]*sync_receiver\.rs:\d+:\d+: \d+:\d+>::drop$",
}


def fingerprint(func):
    """Callees (normalised), switch shapes and constants of a wrapper's non-cleanup blocks."""
    items = []
    for name, blk in func.blocks.items():
        if blk.cleanup or blk.term is None:
            continue
        t = blk.term[0]
        m = re.match(r"^(?:.+? = )?(.+?)\((.*)\) -> ", t)
        if m and not t.startswith(("switchInt", "drop(", "assert(")):
            callee = re.sub(r"<impl at [^>]*>", "<impl>", m.group(1))
            callee = re.sub(r"\{closure@[^}]*\}", "{closure}", callee)
            items.append("call:" + callee)
        elif t.startswith("switchInt"):
            keys = re.findall(r"(\d+|otherwise):", t)
            items.append("switch:" + ",".join(keys))
        for (s, _) in blk.stmts:
            for c in re.findall(r"const (?:core::state::)?(EVENT_[A-Z]+)", s):
                items.append("const:" + c)
            for c in re.findall(r"Ordering::(\w+)", s):
                items.append("ord:" + c)
        for c in re.findall(r"const (?:core::state::)?(EVENT_[A-Z]+)", t):
            items.append("const:" + c)
    items.sort()
    return hashlib.sha256("\n".join(items).encode()).hexdigest()[:16], items


def wrapper_fingerprints(funcs):
    out = {}
    for label, pat in WRAPPERS.items():
        c = [f for k, f in funcs.items() if re.search(pat, k)]
        if len(c) != 1:
            raise A.Unsupported("wrapper %s not found exactly once in the MIR dump (%d)" % (label, len(c)))
        out[label] = fingerprint(c[0])[0]
    return out


# ----- thread programs --------------------------------------------------------------------------
class ThreadBuilder:
    """Composes the automata of a sequence of endpoint operations into one thread program."""

    def __init__(self, cfg, find):
        self.cfg, self.find = cfg, find
        self.interp = A.Interp(cfg)
        self.nodes = {}
        self.next_id = 0
        self.cur_op = 0
        self.op_of = {}          # node id -> index of the endpoint operation it belongs to

    def new_node(self, op, succ=None):
        nid = self.next_id
        self.next_id += 1
        self.nodes[nid] = dict(op=op, succ=succ or {})
        self.op_of[nid] = self.cur_op
        return nid

    def func_automaton(self, fname, args, on_return):
        """Instantiates Event::fname(args); `on_return(retval)` gives the continuation target."""
        b = A.Builder(self.interp)
        entry = b.start(self.find(fname), args)
        remap = {}
        for n in b.nodes:
            remap[n.id] = self.new_node(dict(n.op))
        cont = {}

        def conv(x):
            if isinstance(x, int):
                return remap[x]
            if x[0] == "PANIC":
                return x
            key = repr(x[1])
            if key not in cont:
                cont[key] = on_return(x[1])
            return cont[key]
        for n in b.nodes:
            self.nodes[remap[n.id]]["succ"] = {k: conv(v) for k, v in n.succ.items()}
        return conv(entry) if not isinstance(entry, int) else remap[entry]

    # --- the wrappers (sync_sender.rs / sync_receiver.rs) ---
    def sender(self, op):
        done = dict(sender_done=True)

        def ret(v):
            if v == ("ENUM", "Err", None) or (isinstance(v, tuple) and v[:2] == ("ENUM", "Err")):
                return self.new_node(dict(kind="RELEASE", ghost=done, line=("sync_sender.rs", 0)), {None: "END"})
            if isinstance(v, tuple) and v[:2] == ("ENUM", "Ok"):
                return self.new_node(dict(kind="NOP", ghost=done), {None: "END"})
            raise A.Unsupported("unexpected sender result %r" % (v,))
        if op == "send":
            return self.func_automaton("set", {"_2": A.VALUE}, ret)
        return self.func_automaton("sender_dropped_without_set", {}, ret)

    def receiver(self, ops):
        """ops: list of 'poll1' | 'poll2' | 'poll3' | 'is_ready' | 'into_value' | 'drop'; after the
        list the receiver stays alive (pending) unless an op consumed it."""
        return self.recv_from(ops, 0)

    def recv_from(self, ops, i):
        if i >= len(ops):
            return "END"
        saved = self.cur_op
        self.cur_op = i
        try:
            return self._recv_from(ops, i)
        finally:
            self.cur_op = saved

    def _recv_from(self, ops, i):
        op = ops[i]
        nxt_cache = {}

        def nxt():
            if "n" not in nxt_cache:
                nxt_cache["n"] = self.recv_from(ops, i + 1)
            return nxt_cache["n"]
        gone = dict(recv_gone=True, last_pending=0)
        if op.startswith("poll"):
            w = int(op[4:])

            def ret(v):
                if v == ("ENUM", "None"):
                    return self.new_node(dict(kind="NOP", ghost=dict(last_pending=w)), {None: nxt()})
                if isinstance(v, tuple) and v[:2] == ("ENUM", "Some"):
                    inner = v[2]
                    if inner == ("ENUM", "Ok", A.VALUE):
                        g = dict(gone, outcome=OUT_VALUE, delivered=1)
                    elif isinstance(inner, tuple) and inner[:2] == ("ENUM", "Err"):
                        g = dict(gone, outcome=OUT_DISCONNECTED)
                    else:
                        raise A.Unsupported("unexpected poll result %r" % (v,))
                    return self.new_node(dict(kind="RELEASE", ghost=g, line=("sync_receiver.rs", 0)), {None: "END"})
                raise A.Unsupported("unexpected poll result %r" % (v,))
            # a new poll supersedes the previous pending registration
            return self.func_automaton("poll", {"_2": ("WAKERREF", w)}, ret)
        if op == "is_ready":
            def ret(v):
                if v not in (0, 1):
                    raise A.Unsupported("unexpected is_set result %r" % (v,))
                return nxt()
            return self.func_automaton("is_set", {}, ret)
        if op in ("drop", "into_value"):
            def ret(v):
                if v == ("ENUM", "Ok", ("ENUM", "None")):
                    if op == "into_value":
                        return self.new_node(dict(kind="NOP", ghost=dict(bad=1)), {None: "END"})   # unreachable!() arm
                    return self.new_node(dict(kind="NOP", ghost=gone), {None: "END"})
                if v == ("ENUM", "Ok", ("ENUM", "Some", A.VALUE)):
                    g = dict(gone, outcome=OUT_VALUE, delivered=1) if op == "into_value" else dict(gone, vdrops=1)
                    return self.new_node(dict(kind="RELEASE", ghost=g, line=("sync_receiver.rs", 0)), {None: "END"})
                if isinstance(v, tuple) and v[:2] == ("ENUM", "Err"):
                    g = dict(gone, outcome=OUT_DISCONNECTED) if op == "into_value" else dict(gone)
                    return self.new_node(dict(kind="RELEASE", ghost=g, line=("sync_receiver.rs", 0)), {None: "END"})
                raise A.Unsupported("unexpected final_poll result %r" % (v,))
            fp = lambda: self.func_automaton("final_poll", {}, ret)
            if op == "drop":
                return fp()
            # into_value: Acquire load, pending unless SET / DISCONNECTED
            c = self.cfg.consts
            succ = {}
            fin = None
            for val in A.STATE_DOMAIN:
                if val in (c["EVENT_BOUND"], c["EVENT_AWAITING"], c["EVENT_SIGNALING"]):
                    succ[val] = nxt()
                elif val in (c["EVENT_SET"], c["EVENT_DISCONNECTED"]):
                    if fin is None:
                        fin = fp()
                    succ[val] = fin
                else:
                    succ[val] = ("PANIC", "unreachable state on into_value")
            return self.new_node(dict(kind="ATOMIC", op="load", ints=[], ords=["Acquire"], loc="state", line=("sync_receiver.rs", 0)), succ)
        raise ValueError(op)


def longest_path(nodes, entry):
    """longest acyclic path length (in nodes) from entry; loops (spins) add a fixed allowance"""
    memo = {}
    onstack = set()
    loops = [0]

    def go(n):
        if not isinstance(n, int):
            return 0
        if n in memo:
            return memo[n]
        if n in onstack:
            loops[0] += 1
            return 0
        onstack.add(n)
        best = 0
        for x in nodes[n]["succ"].values():
            best = max(best, go(x))
        onstack.discard(n)
        memo[n] = best + 1
        return memo[n]
    return go(entry), loops[0]


RECEIVER_PROGRAMS_QUICK = [
    ["drop"], ["poll1"], ["poll1", "drop"], ["poll1", "poll2"], ["is_ready", "poll1"], ["into_value", "drop"], ["poll1", "into_value"],
]
RECEIVER_PROGRAMS_THOROUGH = RECEIVER_PROGRAMS_QUICK + [
    ["poll1", "poll2", "drop"], ["poll1", "poll1"], ["poll1", "poll2", "poll3"], ["is_ready", "poll1", "drop"], ["poll1", "is_ready", "into_value"],
    ["into_value", "poll1", "drop"], ["poll1", "into_value", "drop"], ["into_value", "into_value"], ["poll1", "poll2", "into_value"],
]
SENDER_OPS = ["send", "drop"]


def scenario_name(sender_op, recv_ops):
    return "S:%s|R:%s" % (sender_op, ",".join(recv_ops))


def build_scenario(cfg, find, sender_op, recv_ops):
    tb0 = ThreadBuilder(cfg, find)
    e0 = tb0.sender(sender_op)
    tb1 = ThreadBuilder(cfg, find)
    e1 = tb1.receiver(recv_ops)
    threads = [dict(nodes=tb0.nodes, entry=e0, op_of=tb0.op_of), dict(nodes=tb1.nodes, entry=e1, op_of=tb1.op_of)]
    k = 0
    for th in threads:
        lp, loops = longest_path(th["nodes"], th["entry"])
        k += lp + 2 * min(loops, 2)
    return threads, k
