"""Driver-side half of the mirproto engine: MIR dump, wrapper fingerprints, scenario fan-out to
python3-vt workers (lib/mirproto/run.py), result collection."""
import json
import os
import subprocess
import sys
import threading
import time

sys.path.insert(0, os.path.dirname(os.path.abspath(__file__)))
from mirproto import mir as M  # noqa: E402  (no z3 needed here)

VERIF = os.path.dirname(os.path.dirname(os.path.abspath(__file__)))
LIB = os.path.join(VERIF, "lib")
FINGERPRINTS = os.path.join(LIB, "mirproto", "fingerprints.json")
PY = "python3-vt"


def worker(args, timeout):
    env = dict(os.environ)
    env["PYTHONPATH"] = LIB
    try:
        p = subprocess.run([PY, "-m", "mirproto.run"] + args, cwd=LIB, env=env, capture_output=True, text=True, timeout=timeout)
    except subprocess.TimeoutExpired:
        return dict(verdict="timeout", detail="worker exceeded %ss" % timeout)
    last = [l for l in p.stdout.splitlines() if l.startswith("{")]
    if p.returncode != 0 or not last:
        return dict(verdict="error", detail=(p.stderr or p.stdout)[-1500:])
    return json.loads(last[-1])


def scenarios_for(model, tier):
    """-> list of (name, worker-args)"""
    if model == "events_once":
        from mirproto import events_once_model as EO
        progs = EO.RECEIVER_PROGRAMS_QUICK if tier == "quick" else EO.RECEIVER_PROGRAMS_THOROUGH
        return [("S:%s|R:%s" % (s, ",".join(r)), ["--sender", s, "--recv", ",".join(r)]) for s in EO.SENDER_OPS for r in progs]
    if model == "events":
        from mirproto import events_model as EV
        out = []
        for flavor in ("auto", "manual"):
            progs = getattr(EV, "%s_%s" % (flavor.upper(), "QUICK" if tier == "quick" else "THOROUGH"))
            for p in progs:
                out.append(("%s: %s" % (flavor, EV.prog_name(p)), ["--model", "events_" + flavor, "--programs", json.dumps(p)]))
        return out
    if model == "region_cached":
        from mirproto import region_cached_model as RC
        return [(RC.prog_name(sc), ["--model", "region_cached", "--programs", json.dumps(sc[:3]), "--kcap", str(sc[3] if tier == "quick" else sc[4])])
                for sc in (RC.QUICK if tier == "quick" else RC.THOROUGH)]
    if model == "future_deque":
        from mirproto import future_deque_model as FD
        return [(FD.prog_name(sc), ["--model", "future_deque", "--programs", json.dumps(sc)]) for sc in (FD.QUICK if tier == "quick" else FD.THOROUGH + FD.generated_family())]
    raise ValueError(model)


def run_property(prop, spec, tier, seed, only=None, jobs=10):
    model = spec["model"]
    res = dict(samples=[], totals=dict(states=0, transitions=0, queries=0, solver_s=0.0, obligations=0, traces_validated=0),
               functions=[], bounds=[], assumptions=list(spec.get("assumptions", [])), noverdict=[], violations=[])
    t0 = time.time()
    try:
        mir_path = M.dump(spec["package"])
    except Exception as e:  # noqa: BLE001
        res["noverdict"].append(("mir-dump", str(e)[-600:]))
        return res
    res["functions"].append("MIR of %s regenerated from the working tree in %.1fs (%s)" % (spec["package"], time.time() - t0, mir_path))
    extra = []
    fp = {}
    if model == "events":
        try:
            mir2 = M.dump("awaiter_set")
        except Exception as e:  # noqa: BLE001
            res["noverdict"].append(("mir-dump", str(e)[-600:]))
            return res
        extra = ["--mir2", mir2]
        for flavor in ("auto", "manual"):
            d = worker(["fingerprint", "--mir", mir_path, "--model", "events_" + flavor], 300)
            if d.get("verdict") in ("error", "timeout"):
                res["noverdict"].append(("fingerprint", str(d)[:600]))
                return res
            fp.update({"%s/%s" % (flavor, k): v for k, v in d.items()})
        d = worker(["fingerprint", "--mir", mir2, "--model", "awaiter_set"], 300)
        if d.get("verdict") in ("error", "timeout"):
            res["noverdict"].append(("fingerprint", str(d)[:600]))
            return res
        fp.update({"awaiter_set/%s" % k: v for k, v in d.items()})
    elif model in ("future_deque", "region_cached"):
        fp = {model: "interpreted-from-mir"}      # nothing of the crate is modelled by hand
    else:
        fp = worker(["fingerprint", "--mir", mir_path], 300)
        if fp.get("verdict") in ("error", "timeout"):
            res["noverdict"].append(("fingerprint", str(fp)[:600]))
            return res
    try:
        expected = json.load(open(FINGERPRINTS)).get(model, {})
    except (OSError, ValueError):
        expected = {}
    if os.environ.get("FOLO_VERIF_PIN_FINGERPRINTS") == model:
        allfp = {}
        try:
            allfp = json.load(open(FINGERPRINTS))
        except (OSError, ValueError):
            pass
        allfp[model] = fp
        json.dump(allfp, open(FINGERPRINTS, "w"), indent=1, sort_keys=True)
        expected = fp
    if model in ("future_deque", "region_cached"):
        expected = fp
    changed = sorted(set(k for k, v in expected.items() if fp.get(k) != v) | set(k for k in fp if k not in expected))
    if changed or not expected:
        res["noverdict"].append(("hand-model", "code that is modelled by hand (endpoint wrappers / awaiter-set contract) changed since the model was pinned: %s "
                                 "(lib/mirproto/fingerprints.json): the model must be re-derived before a verdict is possible" % (changed or "<none pinned>")))
        return res
    scs = scenarios_for(model, tier)
    if only:
        scs = [x for x in scs if only in x[0]]
    import random
    random.Random(seed).shuffle(scs)
    results = [None] * len(scs)
    sem = threading.Semaphore(jobs)
    per_timeout = spec.get("timeout_quick", 900) if tier == "quick" else spec.get("timeout_thorough", 3600)

    def go(i, name, wargs):
        with sem:
            a = ["scenario", "--mir", mir_path, "--prop", prop, "--timeout", str(per_timeout),
                 "--kcap", str(spec.get("kcap_quick", 64) if tier == "quick" else spec.get("kcap_thorough", 96))] + extra + wargs
            results[i] = worker(a, per_timeout * 3 + 120)
            d = results[i]
            print("[mirproto] %-58s %-10s k=%-3s %s" % (name, d.get("verdict"), d.get("k"),
                                                       "; ".join("%s %ss" % (q["result"], q["s"]) for q in d.get("queries", []))), flush=True)
    ths = []
    for i, (name, wargs) in enumerate(scs):
        th = threading.Thread(target=go, args=(i, name, wargs))
        th.start()
        ths.append(th)
    for th in ths:
        th.join()
    if model == "events_once" and not only:
        validate_sequential(res, mir_path, prop, spec, tier, jobs)
    if model == "events" and not only:
        validate_sequential_events(res, mir_path, extra, prop, tier, jobs)
    if model == "region_cached" and not only:
        validate_sequential_rc(res, mir_path, prop, tier, jobs)
    if model == "future_deque" and not only:
        validate_sequential_fd(res, mir_path, prop, tier, jobs)
    fnset = set()
    for (name, wargs), d in zip(scs, results):
        v = d.get("verdict")
        sample = dict(engine="mirproto", scenario=name, verdict=v, k_steps=d.get("k"), k_longest_path=d.get("k_longest_path"),
                      automaton_nodes=d.get("nodes"), smt_assertions=d.get("assertions"), queries=d.get("queries"),
                      detail=d.get("detail") or d.get("labels"))
        res["samples"].append(sample)
        res["bounds"].append("%s: all interleavings of the thread programs, <= %s visible steps" % (name, d.get("k")))
        res["totals"]["queries"] += len(d.get("queries", []))
        res["totals"]["solver_s"] += sum(q["s"] for q in d.get("queries", []))
        res["totals"]["obligations"] += 1
        res["totals"]["transitions"] += d.get("assertions") or 0
        res["totals"]["states"] += sum(d.get("nodes") or [0]) * (d.get("k") or 0)
        for f in d.get("functions", []):
            fnset.add(f)
        if v == "holds":
            continue
        if v == "violation":
            import re as _re
            rp = os.path.join(VERIF, "replay", prop, _re.sub(r"[^A-Za-z0-9_.-]+", "_", name) + ".mirproto.json")
            os.makedirs(os.path.dirname(rp), exist_ok=True)
            with open(rp, "w") as f:
                f.write("# mirproto\n")
                json.dump(dict(prop=prop, model=model, name=name, worker_args=wargs, labels=d["labels"], trace=d["trace"], final=d["final"], k=d["k"]), f, indent=1)
            where = first_blame(d)
            for lab in d["labels"]:
                res["violations"].append((name, "%s [%s]" % (lab, where), rp))
        else:
            res["noverdict"].append((name, "%s: %s" % (v, str(d.get("detail"))[:400])))
    res["functions"] += sorted(fnset)
    return res


def validate_sequential(res, mir_path, prop, spec, tier, jobs):
    """Translator validation against the implementation: every scenario, with the operations run one
    at a time in every order, gives the same observable tuple in the model (pinned schedule) and on the
    real code (native/events_once_seq, public API, counting payloads and wakers)."""
    import shutil
    from mirproto import events_once_model as EO
    nd = os.path.join(VERIF, "native", "events_once_seq")
    tdir = os.path.join(VERIF, ".cache", "native", "events_once_seq")
    try:
        shutil.copyfile(os.path.join(M.REPO, "Cargo.lock"), os.path.join(nd, "Cargo.lock"))
        env = dict(os.environ)
        env["CARGO_NET_OFFLINE"] = "true"
        env.pop("RUSTFLAGS", None)
        b = subprocess.run(["cargo", "build", "-q", "--offline", "--target-dir", tdir], cwd=nd, env=env, capture_output=True, text=True, timeout=1200)
        exe = os.path.join(tdir, "debug", "folo_verif_events_once_seq")
        if b.returncode != 0 or not os.path.exists(exe):
            res["noverdict"].append(("sequential-validation", "native build failed: " + b.stderr[-400:]))
            return
    except Exception as e:  # noqa: BLE001
        res["noverdict"].append(("sequential-validation", str(e)[-400:]))
        return
    progs = EO.RECEIVER_PROGRAMS_QUICK if tier == "quick" else EO.RECEIVER_PROGRAMS_THOROUGH
    cases = []
    for s_ in EO.SENDER_OPS:
        for r in progs:
            for pos in range(len(r) + 1):
                order = ["R"] * pos + ["S"] + ["R"] * (len(r) - pos)
                cases.append((s_, r, order))
    out = [None] * len(cases)
    sem = threading.Semaphore(jobs)

    def go(i, s_, r, order):
        with sem:
            d = worker(["scenario", "--mir", mir_path, "--prop", prop, "--sender", s_, "--recv", ",".join(r), "--pin", ",".join(order), "--kcap", "96", "--timeout", "600"], 1500)
            try:
                n = subprocess.run([exe, s_, ",".join(r), ",".join(order)], capture_output=True, text=True, timeout=60)
                nat = json.loads(n.stdout.strip().splitlines()[-1]) if n.returncode == 0 else dict(error="native rc=%s %s" % (n.returncode, n.stderr[-200:]))
            except Exception as e:  # noqa: BLE001
                nat = dict(error=str(e))
            out[i] = (d, nat)
    ths = [threading.Thread(target=go, args=(i,) + c) for i, c in enumerate(cases)]
    for th in ths:
        th.start()
    for th in ths:
        th.join()
    keys = ("outcome", "delivered", "vdrops", "clones", "wdrops", "woken", "last_pending", "recv_gone", "sender_done")
    ok = 0
    for (s_, r, order), (d, nat) in zip(cases, out):
        name = "S:%s|R:%s order %s" % (s_, ",".join(r), "".join(order))
        if d.get("verdict") != "pinned" or "error" in nat:
            res["noverdict"].append(("sequential-validation " + name, "model: %s / native: %s" % (d.get("verdict"), nat)))
            continue
        fin = d["final"]
        diff = {k: (fin.get(k), nat.get(k)) for k in keys if fin.get(k) != nat.get(k)}
        if diff or fin.get("bad") or fin.get("race"):
            res["noverdict"].append(("sequential-validation " + name, "model and real code disagree (model, native): %s bad=%s race=%s" % (diff, fin.get("bad"), fin.get("race"))))
        else:
            ok += 1
    res["totals"]["traces_validated"] += ok
    res["samples"].append(dict(engine="mirproto", kind="sequential translation validation", cases=len(cases), agreeing=ok,
                               compared=list(keys), example=dict(scenario="S:%s|R:%s" % (cases[0][0], ",".join(cases[0][1])), order=cases[0][2], model=out[0][0].get("final"), native=out[0][1])))
    print("[mirproto] sequential validation against the real code: %d/%d orders agree" % (ok, len(cases)), flush=True)


def validate_sequential_rc(res, mir_path, prop, tier, jobs):
    """Translation validation for the region_cached model: every single-region scenario, its operations run one at a
    time in EVERY order that respects the thread programs - in the model (pinned schedule) and on the real crate
    through the public API (native/region_cached_seq); the values the reads return must agree."""
    import shutil
    from mirproto import region_cached_model as RC
    nd = os.path.join(VERIF, "native", "region_cached_seq")
    cache = os.environ.get("FOLO_VERIF_CACHE") or os.path.join(VERIF, ".cache")
    work = os.path.join(cache, "native_src", "region_cached_seq")
    tdir = os.path.join(cache, "native", "region_cached_seq")
    try:
        shutil.rmtree(work, ignore_errors=True)
        shutil.copytree(nd, work, ignore=shutil.ignore_patterns("target", "Cargo.lock"))
        ct = os.path.join(work, "Cargo.toml")
        txt = open(ct).read().replace('"/repo/packages/', '"%s/packages/' % M.REPO)
        open(ct, "w").write(txt)
        shutil.copyfile(os.path.join(M.REPO, "Cargo.lock"), os.path.join(work, "Cargo.lock"))
        env = dict(os.environ)
        env["CARGO_NET_OFFLINE"] = "true"
        env.pop("RUSTFLAGS", None)
        b = subprocess.run(["cargo", "build", "-q", "--offline", "--target-dir", tdir], cwd=work, env=env, capture_output=True, text=True, timeout=1200)
        exe = os.path.join(tdir, "debug", "folo_verif_region_cached_seq")
        if b.returncode != 0 or not os.path.exists(exe):
            res["noverdict"].append(("sequential-validation", "native build failed: " + b.stderr[-400:]))
            return
    except Exception as e:  # noqa: BLE001
        res["noverdict"].append(("sequential-validation", str(e)[-400:]))
        return

    def orders(progs):
        out = []

        def go(pos, acc):
            if all(pos[t] == len(progs[t]) for t in range(len(progs))):
                out.append(list(acc))
                return
            for t in range(len(progs)):
                if pos[t] < len(progs[t]):
                    pos[t] += 1
                    acc.append(t)
                    go(pos, acc)
                    acc.pop()
                    pos[t] -= 1
        go([0] * len(progs), [])
        return out
    cases = []
    for sc in (RC.QUICK if tier == "quick" else RC.THOROUGH):
        n, ini, progs = sc[:3]
        if n != 1:
            continue
        for o in orders(progs):
            cases.append((sc, o))
    out = [None] * len(cases)
    sem = threading.Semaphore(jobs)

    def go(i, sc, o):
        with sem:
            n, ini, progs = sc[:3]
            d = worker(["scenario", "--mir", mir_path, "--prop", prop, "--model", "region_cached", "--programs", json.dumps(sc[:3]),
                        "--pin", ",".join(map(str, o)), "--kcap", "160", "--timeout", "600"], 1500)
            pos = [0] * len(progs)
            ops = []
            for t in o:
                it = progs[t][pos[t]]
                pos[t] += 1
                ops.append("s" if it == "set" else "r")
            try:
                nres = subprocess.run([exe, "warm" if ini[0] == "ready0" else "cold", ",".join(ops)], capture_output=True, text=True, timeout=60)
                nat = json.loads(nres.stdout.strip().splitlines()[-1]) if nres.returncode == 0 else dict(error="native rc=%s %s" % (nres.returncode, nres.stderr[-200:]))
            except Exception as e:  # noqa: BLE001
                nat = dict(error=str(e))
            out[i] = (d, nat, ops)
    ths = [threading.Thread(target=go, args=(i,) + c) for i, c in enumerate(cases)]
    for th in ths:
        th.start()
    for th in ths:
        th.join()
    ok = 0
    for (sc, o), (d, nat, ops) in zip(cases, out):
        name = "%s order %s" % (RC.prog_name(sc), ",".join(map(str, o)))
        if d.get("verdict") != "pinned":
            res["noverdict"].append(("sequential-validation " + name, "model: %s %s" % (d.get("verdict"), str(d.get("detail"))[:200])))
            continue
        fin = d["final"]
        if nat.get("error") or fin.get("bad") or fin.get("reads") != nat.get("reads"):
            res["noverdict"].append(("sequential-validation " + name, "model and real code disagree: model reads %s (bad=%s), native %s" % (fin.get("reads"), fin.get("bad"), nat)))
        else:
            ok += 1
    res["totals"]["traces_validated"] += ok
    if cases:
        res["samples"].append(dict(engine="mirproto", kind="sequential translation validation (model vs real crate through the public API)", cases=len(cases), agreeing=ok,
                                   compared=["value returned by every read"], example=dict(scenario=RC.prog_name(cases[0][0]), order=cases[0][1], ops=out[0][2], model=out[0][0].get("final"), native=out[0][1])))
    print("[mirproto] sequential validation against the real code: %d/%d orders agree" % (ok, len(cases)), flush=True)


def validate_sequential_fd(res, mir_path, prop, tier, jobs):
    """Translation validation for the future_deque model: every scenario with ordinary task wakers, its operations run one
    at a time in every order that respects the two programs (the waker thread starts after the first deque poll handed it
    the waker) - in the model (pinned schedule) and on the real crate through the public API (native/future_deque_seq);
    the number of polls of the contained future and the number of invocations of each task waker must agree."""
    import shutil
    from mirproto import future_deque_model as FD
    nd = os.path.join(VERIF, "native", "future_deque_seq")
    cache = os.environ.get("FOLO_VERIF_CACHE") or os.path.join(VERIF, ".cache")
    work = os.path.join(cache, "native_src", "future_deque_seq")
    tdir = os.path.join(cache, "native", "future_deque_seq")
    try:
        shutil.rmtree(work, ignore_errors=True)
        shutil.copytree(nd, work, ignore=shutil.ignore_patterns("target", "Cargo.lock"))
        ct = os.path.join(work, "Cargo.toml")
        txt = open(ct).read().replace('"/repo/packages/', '"%s/packages/' % M.REPO)
        open(ct, "w").write(txt)
        shutil.copyfile(os.path.join(M.REPO, "Cargo.lock"), os.path.join(work, "Cargo.lock"))
        env = dict(os.environ)
        env["CARGO_NET_OFFLINE"] = "true"
        env.pop("RUSTFLAGS", None)
        b = subprocess.run(["cargo", "build", "-q", "--offline", "--target-dir", tdir], cwd=work, env=env, capture_output=True, text=True, timeout=1200)
        exe = os.path.join(tdir, "debug", "folo_verif_future_deque_seq")
        if b.returncode != 0 or not os.path.exists(exe):
            res["noverdict"].append(("sequential-validation", "native build failed: " + b.stderr[-400:]))
            return
    except Exception as e:  # noqa: BLE001
        res["noverdict"].append(("sequential-validation", str(e)[-400:]))
        return

    def merges(a, b):
        if not a:
            return [list(b)]
        if not b:
            return [list(a)]
        return [[a[0]] + r for r in merges(a[1:], b)] + [[b[0]] + r for r in merges(a, b[1:])]
    cases = []
    for sc in FD.QUICK:
        if len(sc) > 3 and sc[3]:
            continue
        fut, own, wk = sc[:3]
        dops = ["P%s" % it[1] if not isinstance(it, str) else "D" for it in own]
        for rest in merges([(0, x) for x in dops[1:]], [(1, x) for x in wk]):
            pin = [0, 0, 1] + [t for (t, _) in rest]
            ops = [dops[0]] + [x for (_, x) in rest]
            cases.append((sc, pin, ops))
    out = [None] * len(cases)
    sem = threading.Semaphore(jobs)

    def go(i, sc, pin, ops):
        with sem:
            d = worker(["scenario", "--mir", mir_path, "--prop", prop, "--model", "future_deque", "--programs", json.dumps(sc[:3]),
                        "--pin", ",".join(map(str, pin)), "--kcap", "96", "--timeout", "600"], 1500)
            try:
                nres = subprocess.run([exe, ",".join(sc[0]), ",".join(ops)], capture_output=True, text=True, timeout=60)
                nat = json.loads(nres.stdout.strip().splitlines()[-1]) if nres.returncode == 0 else dict(error="native rc=%s %s" % (nres.returncode, nres.stderr[-200:]))
            except Exception as e:  # noqa: BLE001
                nat = dict(error=str(e))
            out[i] = (d, nat)
    ths = [threading.Thread(target=go, args=(i,) + c) for i, c in enumerate(cases)]
    for th in ths:
        th.start()
    for th in ths:
        th.join()
    ok = 0
    for (sc, pin, ops), (d, nat) in zip(cases, out):
        name = "%s ops %s" % (FD.prog_name(sc), ",".join(ops))
        if d.get("verdict") != "pinned":
            res["noverdict"].append(("sequential-validation " + name, "model: %s %s" % (d.get("verdict"), str(d.get("detail"))[:200])))
            continue
        fin = d["final"]
        if nat.get("error") or fin.get("bad") or fin.get("race") or fin.get("future_polls") != nat.get("future_polls") or fin.get("woken") != nat.get("woken"):
            res["noverdict"].append(("sequential-validation " + name, "model and real code disagree: model %s, native %s" % (fin, nat)))
        else:
            ok += 1
    res["totals"]["traces_validated"] += ok
    if cases:
        res["samples"].append(dict(engine="mirproto", kind="sequential translation validation (model vs real crate through the public API)", cases=len(cases), agreeing=ok,
                                   compared=["polls of the contained future", "invocations of task waker 1 / 2"], example=dict(scenario=FD.prog_name(cases[0][0]), ops=cases[0][2], model=out[0][0].get("final"), native=out[0][1])))
    print("[mirproto] sequential validation against the real code: %d/%d orders agree" % (ok, len(cases)), flush=True)


def validate_sequential_events(res, mir_path, extra, prop, tier, jobs):
    """Same idea for the reset events: thread programs executed item by item in a pinned global order,
    in the model and on the real events (native/events_seq)."""
    import itertools
    import shutil
    from mirproto import events_model as EV
    nd = os.path.join(VERIF, "native", "events_seq")
    tdir = os.path.join(VERIF, ".cache", "native", "events_seq")
    try:
        shutil.copyfile(os.path.join(M.REPO, "Cargo.lock"), os.path.join(nd, "Cargo.lock"))
        env = dict(os.environ)
        env["CARGO_NET_OFFLINE"] = "true"
        env.pop("RUSTFLAGS", None)
        b = subprocess.run(["cargo", "build", "-q", "--offline", "--target-dir", tdir], cwd=nd, env=env, capture_output=True, text=True, timeout=1200)
        exe = os.path.join(tdir, "debug", "folo_verif_events_seq")
        if b.returncode != 0 or not os.path.exists(exe):
            res["noverdict"].append(("sequential-validation", "native build failed: " + b.stderr[-400:]))
            return
    except Exception as e:  # noqa: BLE001
        res["noverdict"].append(("sequential-validation", str(e)[-400:]))
        return

    def item_txt(it):
        if isinstance(it, str):
            return it
        return "p%d.%d" % (it[1], it[2]) if it[0] == "poll" else "d%d" % it[1]
    cases = []
    for flavor in ("auto", "manual"):
        progs = getattr(EV, "%s_%s" % (flavor.upper(), "QUICK" if tier == "quick" else "THOROUGH"))
        for p in progs:
            T = len(p)
            orders = []
            for perm in itertools.permutations(range(T)):
                orders.append([t for t in perm for _ in p[t]])
            rr = []
            for j in range(max(len(x) for x in p)):
                for t in range(T):
                    if j < len(p[t]):
                        rr.append(t)
            orders.append(rr)
            for o in orders:
                cases.append((flavor, p, o))
    out = [None] * len(cases)
    sem = threading.Semaphore(jobs)

    def go(i, flavor, p, o):
        with sem:
            d = worker(["scenario", "--mir", mir_path, "--prop", prop, "--model", "events_" + flavor, "--programs", json.dumps(p),
                        "--pin", ",".join(map(str, o)), "--kcap", "128", "--timeout", "600"] + extra, 1500)
            try:
                n = subprocess.run([exe, flavor, ";".join(",".join(item_txt(it) for it in th) for th in p), ",".join(map(str, o))], capture_output=True, text=True, timeout=60)
                nat = json.loads(n.stdout.strip().splitlines()[-1]) if n.returncode == 0 else dict(error="native rc=%s %s" % (n.returncode, n.stderr[-200:]))
            except Exception as e:  # noqa: BLE001
                nat = dict(error=str(e))
            out[i] = (d, nat)
    ths = [threading.Thread(target=go, args=(i,) + c) for i, c in enumerate(cases)]
    for th in ths:
        th.start()
    for th in ths:
        th.join()
    ok = 0
    for (flavor, p, o), (d, nat) in zip(cases, out):
        name = "%s: %s order %s" % (flavor, EV.prog_name(p), "".join(map(str, o)))
        if d.get("verdict") != "pinned" or "error" in nat:
            res["noverdict"].append(("sequential-validation " + name, "model: %s %s / native: %s" % (d.get("verdict"), d.get("detail"), nat)))
            continue
        fin = d["final"]
        # try results in execution order
        seen, tries = {}, []
        for t in o:
            j = seen.get(t, 0)
            seen[t] = j + 1
            if j < len(p[t]) and p[t][j] == "try":
                tries.append(fin["tries"].get("%d.%d" % (t, j)))
        mask = sum((1 << i) for i, c in enumerate(nat["woken"]) if c > 0)
        diff = {}
        if tries != nat["tries"]:
            diff["tries"] = (tries, nat["tries"])
        if fin["status"] != nat["status"]:
            diff["status"] = (fin["status"], nat["status"])
        if fin["woken_mask"] != mask:
            diff["woken"] = (fin["woken_mask"], mask)
        if fin["live_wakers"] != nat["live_wakers"]:
            diff["live_wakers"] = (fin["live_wakers"], nat["live_wakers"])
        if fin["stored"] != nat["stored"]:
            diff["stored"] = (fin["stored"], nat["stored"])
        if diff or fin.get("bad"):
            res["noverdict"].append(("sequential-validation " + name, "model and real code disagree (model, native): %s bad=%s" % (diff, fin.get("bad"))))
        else:
            ok += 1
    res["totals"]["traces_validated"] += ok
    res["samples"].append(dict(engine="mirproto", kind="sequential translation validation (reset events)", cases=len(cases), agreeing=ok,
                               compared=["try_wait results", "wait status per future", "woken wakers", "live waker clones", "stored signal"],
                               example=dict(scenario=cases[0][0] + ": " + EV.prog_name(cases[0][1]), order=cases[0][2], model=out[0][0].get("final"), native=out[0][1])))
    print("[mirproto] sequential validation against the real events: %d/%d orders agree" % (ok, len(cases)), flush=True)


def first_blame(d):
    """source location of the last visible step of the trace (where the monitor fired)"""
    tr = d.get("trace") or []
    for st in reversed(tr):
        if st.get("line"):
            return "%s:%s %s" % (st["line"][0], st["line"][1], st["op"])
    return "?"


def replay_file(prop, spec, path):
    """Re-runs the scenario of a recorded counterexample against the CURRENT source."""
    with open(path) as f:
        f.readline()
        rec = json.load(f)
    mir_path = M.dump(spec["package"])
    extra = ["--mir2", M.dump("awaiter_set")] if rec["model"] == "events" else []
    d = worker(["scenario", "--mir", mir_path, "--prop", rec["prop"], "--timeout", "900", "--kcap", "96"] + extra + rec["worker_args"], 2400)
    print("replay of %s on the current tree: %s %s" % (path, d.get("verdict"), d.get("labels") or d.get("detail") or ""))
    if d.get("verdict") == "violation":
        for st in d["trace"]:
            print("   step %2d T%d %-38s %s state=%s %s" % (st["step"], st["thread"], st["op"], "%s:%s" % tuple(st["line"]) if st.get("line") else "", st["state_after"], st.get("ghost") or ""))
        print("VIOLATION property=%s replay=%s" % (prop, path))
        return 1
    return 0 if d.get("verdict") == "holds" else 2
