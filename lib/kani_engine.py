"""kani engine: run #[kani::proof] harnesses over /repo's current working tree and classify results.

One process per harness (regular output format, so CBMC's formula statistics and every check are
visible), N worker slots, each slot with its own --target-dir (concurrent cargo invocations on one
target dir would serialise on the build lock and overwrite each other's goto binaries, because the
harness filter is part of the compiler arguments).

Nothing here decides a property by sampling: the verdict of each harness is CBMC's SAT verdict over
all values of its `kani::any()` choices within the harness' stated unwind bound.
"""
import json
import os
import re
import resource
import shutil
import signal
import subprocess
import threading
import time

VERIF = os.path.dirname(os.path.dirname(os.path.abspath(__file__)))
REPO = os.environ.get("FOLO_REPO", "/repo")
CACHE = os.environ.get("FOLO_VERIF_CACHE") or os.path.join(VERIF, ".cache")

# ---------------------------------------------------------------------------------------------
# Suites: where harness code lives and how it is built.
#   kind=ext      harness crate under /verif/kani/<dir> with path dependencies on /repo/packages/*
#   kind=incrate  harness file included into the real crate through the `#[cfg(kani)]` hook
# ---------------------------------------------------------------------------------------------
SUITES = {
    "events_once_local": dict(
        kind="ext", dir="kani/events_once_local", sources=["kani/events_once_local/src/lib.rs"],
        functions=["events_once::LocalEvent::{set,poll,poll_bound,poll_set,poll_awaiting,"
                   "sender_dropped_without_set,is_set,final_poll}",
                   "LocalSenderCore::{send,drop}", "LocalReceiverCore::{poll,is_ready,into_value,drop}",
                   "BoxedLocalRef/PtrLocalRef/PooledLocalRef::release_event", "LocalEventPool::rent"],
        stubs=[], replay_bin="kani/events_once_local",
    ),
    "awaiter_set": dict(
        kind="ext", dir="kani/awaiter_set", sources=["kani/awaiter_set/src/lib.rs"],
        functions=["awaiter_set::AwaiterSet::{new,register,unregister,notify_one,advance_generation,notify_one_prior_generation,is_empty}",
                   "awaiter_set::Awaiter::{new,is_registered,is_notified,take_notification}"],
        stubs=[], replay_bin="kani/awaiter_set",
    ),
    "cbh_stats": dict(
        kind="incrate", package="cbh_stats", prefix="folo_verif::",
        sources=["kani/cbh_stats/harness.rs"],
        env={"CARGO_PROFILE_DEV_DEBUG_ASSERTIONS": "false"},
        functions=["cbh_stats::clamp_p_value", "exact_tail_p_values", "scaled_average_ranks", "same", "pettitt_rank_location", "mann_whitney_tie_term", "exact_mw_feasible"],
        stubs=[], replay_bin="kani/cbh_stats/replay",
    ),
    "cbh_storage": dict(
        kind="incrate", package="cbh_storage", prefix="folo_verif::",
        sources=["kani/cbh_storage/harness.rs"],
        env={"CARGO_PROFILE_DEV_DEBUG_ASSERTIONS": "false"},
        functions=["cbh_storage::keys::{validate_key,is_plain_segment}", "std::path::Path::components (real)"],
        stubs=["alloc::fmt::format -> String::new() on the error-message path"], replay_bin="kani/cbh_storage/replay",
    ),
    "events_local": dict(
        kind="ext", dir="kani/events_local", sources=["kani/events_local/src/lib.rs"],
        functions=["events::LocalAutoResetEvent::{boxed,set,try_wait,wait}", "events::LocalManualResetEvent::{boxed,set,reset,try_wait,wait}",
                   "Local*WaitFuture::{poll,drop}", "local_auto::Inner::{set,try_wait,poll_wait,drop_wait}", "local_manual::Inner::{set,reset,try_wait,poll_wait,drop_wait}"],
        stubs=[], replay_bin="kani/events_local",
    ),
    "infinity_pool": dict(
        kind="incrate", package="infinity_pool", prefix="folo_verif::",
        sources=["kani/infinity_pool/harness.rs"],
        env={"CARGO_PROFILE_DEV_DEBUG_ASSERTIONS": "false"},
        functions=["SlabLayout::new", "determine_capacity", "VacancyMap::{resize,replace_unchecked,get}",
                   "VacancyMapSlice::first_one", "mask_bits", "VacancyTracker::{update_slab_count,update_slab_status,next_vacancy}",
                   "Slab::{new,insert_with_unchecked,remove,remove_unpin,iter,len,is_empty,is_full,drop}", "SlabIterator::{next,next_back,len}",
                   "RawOpaquePool::{insert,insert_with_unchecked,remove,remove_unpin,reserve,shrink_to_fit,len,capacity,is_empty,iter,drop}",
                   "RawPooledMut::into_shared", "RawPooled::{ptr,as_ref}", "Dropper::{new,drop}", "LayoutKey::new"],
        stubs=["std::panic::catch_unwind -> call the closure (Kani has no unwinding)",
               "std::panic::resume_unwind -> panic!() (reaching it is reported)"],
        replay_bin="kani/infinity_pool/replay",
    ),
    "alloc_tracker": dict(
        kind="incrate", package="alloc_tracker", prefix="folo_verif::",
        sources=["kani/alloc_tracker/harness.rs"],
        env={"CARGO_PROFILE_DEV_DEBUG_ASSERTIONS": "false"},
        functions=["alloc_tracker::Allocator::<A>::{alloc,dealloc,alloc_zeroed,realloc}", "track_allocation", "get_or_init_thread_counters",
                   "PerThreadCounters::{register_allocation,bytes,count}", "allocation_totals", "ThreadSpan::{new,iterations,drop}", "thread_deltas",
                   "ProcessSpan::{new,iterations,drop}", "process_deltas", "Operation::{new,measure_thread,measure_process}",
                   "OperationMetrics::{add_span,merge,total_*}", "folo_utils::SpanAccumulator::{add,merge,span_count}"],
        stubs=["std::panic::catch_unwind -> call the closure (Kani has no unwinding)"],
        replay_bin="kani/alloc_tracker/replay",
    ),
    "nm_impl": dict(
        kind="incrate", package="nm_impl", prefix="folo_verif::",
        sources=["kani/nm_impl/harness.rs"],
        env={"CARGO_PROFILE_DEV_DEBUG_ASSERTIONS": "false"},
        functions=["nm_impl::ObservationBag::{new,insert,count,take_dirty_buckets}", "ObservationBagSync::{new,insert,copy_from,drain_overflow_buckets,merge_from}",
                   "clear_lowest_set_bit", "ObservationBagSnapshot::merge_from", "MetricsPusher::push"],
        stubs=[],
        replay_bin="kani/nm_impl/replay",
    ),
    "many_cpus_impl": dict(
        kind="incrate", package="many_cpus_impl", prefix="pal::linux::cpu_mask::folo_verif_cpu_mask::",
        sources=["kani/many_cpus_impl/cpu_mask_hooks.rs"],
        env={"CARGO_PROFILE_DEV_DEBUG_ASSERTIONS": "false"},
        functions=["many_cpus_impl::pal::linux::cpu_mask::BitPosition::{of,bit,processor_id}", "CpuMask::{with_words,insert,processor_ids,len_bytes,word,eq}"],
        stubs=[],
        replay_bin="kani/many_cpus_impl/replay",
    ),
}


def env_base():
    env = dict(os.environ)
    env["CARGO_NET_OFFLINE"] = "true"
    env["FOLO_VERIF_DIR"] = VERIF
    env.pop("RUSTFLAGS", None)
    return env


ANN = re.compile(r"//\s*@verif\s+(.*)")
BND = re.compile(r"//\s*@bounds\s+(.*)")
FN = re.compile(r"\bfn\s+([A-Za-z0-9_]+)")


def discover(suite):
    """Parse `// @verif k=v ...` annotations (+ optional `// @bounds text`) preceding harness fns."""
    out = []
    spec = SUITES[suite]
    for src in spec["sources"]:
        path = os.path.join(VERIF, src)
        pending = None
        with open(path) as f:
            for line in f:
                m = ANN.search(line)
                if m:
                    kv = dict(tok.split("=", 1) for tok in m.group(1).split() if "=" in tok)
                    pending = dict(suite=suite, ids=kv.get("id", "").split(","), tier=kv.get("tier", "quick"),
                                   timeout=int(kv.get("timeout", "600")), mem=int(kv.get("mem", "8")),
                                   expect=kv.get("expect", "pass"), bounds="", source=src,
                                   min_covers=int(kv.get("covers", "0")), family=kv.get("family", ""),
                                   witness=kv.get("witness", "all"))
                    continue
                m = BND.search(line)
                if m and pending is not None:
                    pending["bounds"] = (pending["bounds"] + " " + m.group(1)).strip()
                    continue
                m = FN.search(line)
                if m and pending is not None and not line.strip().startswith("//"):
                    pending["name"] = m.group(1)
                    out.append(pending)
                    pending = None
    return out


# ---------------------------------------------------------------------------------------------
# Running
# ---------------------------------------------------------------------------------------------
def _limit(mem_gb):
    def f():
        os.setsid()
        if mem_gb:
            b = int(mem_gb * (1 << 30))
            resource.setrlimit(resource.RLIMIT_AS, (b, b))
    return f


def prepare_suite(suite):
    spec = SUITES[suite]
    if spec["kind"] == "ext":
        d = os.path.join(VERIF, spec["dir"])
        if REPO != "/repo":
            # scratch repository (FOLO_REPO): build a copy of the harness crate whose path dependencies point there
            root = os.path.join(CACHE, "extsrc")
            dst = os.path.join(root, spec["dir"])
            shutil.rmtree(dst, ignore_errors=True)
            shutil.copytree(d, dst, ignore=shutil.ignore_patterns("target", "Cargo.lock"))
            shutil.rmtree(os.path.join(root, "kani", "common"), ignore_errors=True)
            shutil.copytree(os.path.join(VERIF, "kani", "common"), os.path.join(root, "kani", "common"))
            ct = os.path.join(dst, "Cargo.toml")
            with open(ct) as f:
                txt = f.read().replace('"/repo/packages/', '"%s/packages/' % REPO)
            with open(ct, "w") as f:
                f.write(txt)
            d = dst
        shutil.copyfile(os.path.join(REPO, "Cargo.lock"), os.path.join(d, "Cargo.lock"))
        return d
    return os.path.join(REPO, "packages", spec["package"])


def kani_cmd(suite, harness, slot, extra=()):
    spec = SUITES[suite]
    tdir = os.path.join(CACHE, "kani", suite, "slot%d" % slot)
    cmd = ["cargo", "kani", "--target-dir", tdir, "--harness", spec.get("prefix", "") + harness, "--exact"]
    if spec.get("stubbing", True):
        cmd += ["-Z", "stubbing"]
    cmd += list(spec.get("kani_args", []))
    cmd += list(extra)
    return cmd


def suite_env(suite):
    env = env_base()
    env.update(SUITES[suite].get("env", {}))
    return env


def run_proc(cmd, cwd, env, timeout, mem_gb, log_path):
    t0 = time.time()
    with open(log_path, "w") as log:
        p = subprocess.Popen(cmd, cwd=cwd, env=env, stdout=log, stderr=subprocess.STDOUT,
                             preexec_fn=_limit(mem_gb))
        try:
            rc = p.wait(timeout=timeout)
            timed_out = False
        except subprocess.TimeoutExpired:
            timed_out = True
            try:
                os.killpg(p.pid, signal.SIGKILL)
            except ProcessLookupError:
                pass
            rc = p.wait()
    return rc, timed_out, time.time() - t0


RE_CHECK = re.compile(r"^Check (\d+): (.+)$")
RE_VARS = re.compile(r"^(\d+) variables, (\d+) clauses")
RE_VCC = re.compile(r"Generated (\d+) VCC\(s\), (\d+) remaining after simplification")
RE_SOLVER = re.compile(r"^Runtime (Solver|decision procedure): ([0-9.e+-]+)s")
RE_SYMEX = re.compile(r"^Runtime Symex: ([0-9.e+-]+)s")
RE_STEPS = re.compile(r"size of program expression: (\d+) steps")
RE_SUMMARY = re.compile(r"\*\* (\d+) of (\d+) failed")
RE_COVER = re.compile(r"\*\* (\d+) of (\d+) cover properties satisfied")
RE_VTIME = re.compile(r"^Verification Time: ([0-9.]+)s")


def parse_log(path):
    r = dict(verdict=None, failed=[], covers_sat=0, covers_total=0, unsat_covers=[], variables=0, clauses=0,
             vccs=0, vccs_remaining=0, solver_calls=0, solver_s=0.0, symex_s=0.0, steps=0,
             checks_total=0, checks_failed=0, verification_s=None, errors=[], stubs=[])
    cur = None
    covers = {}
    with open(path, errors="replace") as f:
        lines = f.read().splitlines()
    for i, line in enumerate(lines):
        m = RE_CHECK.match(line)
        if m:
            cur = dict(name=m.group(2), status=None, description="", location="")
            continue
        s = line.strip()
        if cur is not None:
            if s.startswith("- Status:"):
                cur["status"] = s.split(":", 1)[1].strip()
            elif s.startswith("- Description:"):
                cur["description"] = s.split(":", 1)[1].strip().strip('"')
            elif s.startswith("- Location:"):
                cur["location"] = s.split(":", 1)[1].strip()
                if cur["status"] in ("FAILURE", "UNDETERMINED") and cur["status"] == "FAILURE":
                    r["failed"].append(cur)
                if ".cover." in cur["name"]:
                    # a witness (keyed by its message) holds if ANY of its instances is satisfiable
                    covers[cur["description"]] = covers.get(cur["description"], False) or cur["status"] == "SATISFIED"
                cur = None
            continue
        m = RE_VARS.match(line)
        if m:
            r["variables"] = max(r["variables"], int(m.group(1)))
            r["clauses"] = max(r["clauses"], int(m.group(2)))
            r["solver_calls"] += 1
            continue
        m = RE_VCC.search(line)
        if m:
            r["vccs"] = int(m.group(1))
            r["vccs_remaining"] = int(m.group(2))
            continue
        m = RE_SOLVER.match(line)
        if m and m.group(1) == "decision procedure":
            r["solver_s"] += float(m.group(2))
            continue
        m = RE_SYMEX.match(line)
        if m:
            r["symex_s"] = float(m.group(1))
            continue
        m = RE_STEPS.search(line)
        if m:
            r["steps"] = int(m.group(1))
            continue
        m = RE_SUMMARY.search(line)
        if m:
            r["checks_failed"] = int(m.group(1))
            r["checks_total"] = int(m.group(2))
            continue
        m = RE_COVER.search(line)
        if m:
            continue
        m = RE_VTIME.match(line)
        if m:
            r["verification_s"] = float(m.group(1))
            continue
        if line.startswith("VERIFICATION:- "):
            r["verdict"] = line.split("- ", 1)[1].strip().split()[0]
            r["verdict_note"] = " ".join(line.split("- ", 1)[1].strip().split()[1:])
            continue
        if "- Stub:" in line or line.strip().startswith("Stub:"):
            r["stubs"].append(line.strip())
        if line.startswith("error") or "internal compiler error" in line or "CBMC failed" in line \
                or "std::bad_alloc" in line or "Out of memory" in line or "ran out of memory" in line or "Killed" in line:
            r["errors"].append(line.strip()[:300])
    r["covers_total"] = len(covers)
    r["covers_sat"] = sum(1 for v in covers.values() if v)
    r["unsat_covers"] = [dict(description=d) for d, v in covers.items() if not v]
    return r


NOVERDICT_PAT = ("unwinding assertion", "is not currently supported by Kani", "unsupported", "recursion unwinding assertion")


def classify(h, rc, timed_out, parsed):
    """-> (status, detail) with status in ok | violation_candidate | noverdict."""
    if timed_out:
        return "noverdict", "timeout after %ds" % h["timeout"]
    if parsed["verdict"] is None:
        return "noverdict", "no verdict line (rc=%s; %s)" % (rc, "; ".join(parsed["errors"][:3]) or "see log")
    failed = parsed["failed"]
    if h["expect"] == "fail":
        # vacuity twin: must fail, and only through its own final assertion
        if parsed["verdict"] != "FAILED" or not failed:
            return "noverdict", "vacuity twin did not fail: scenario end unreachable (harness vacuous)"
        bad = [c for c in failed if "vacuity twin" not in c["description"]]
        if bad:
            return "violation_candidate", "twin failed through a real check: %s" % bad[0]["description"]
        return "ok", "twin failed as required"
    if h["expect"] == "panic":
        # #[kani::should_panic]: SUCCESSFUL = at least one panic and nothing but panics failed
        if parsed["verdict"] == "SUCCESSFUL":
            return "ok", "panics as required"
        if parsed.get("verdict_note", "").startswith("(encountered no panics"):
            return "violation_candidate", "expected panic did not occur"
        real = [c for c in failed if not any(p in c["description"] for p in NOVERDICT_PAT)]
        if real:
            return "violation_candidate", "; ".join("%s @ %s" % (c["description"], c["location"].split(" in function")[0]) for c in real[:4])
        return "noverdict", "should_panic harness: %s" % parsed.get("verdict_note", "")
    if parsed["verdict"] == "SUCCESSFUL":
        if h.get("witness", "all") == "any":
            if parsed["covers_sat"] < max(1, h["min_covers"]):
                return "noverdict", "fewer than %d vacuity witnesses satisfiable (%d)" % (max(1, h["min_covers"]), parsed["covers_sat"])
        elif parsed["covers_total"] and parsed["covers_sat"] < parsed["covers_total"]:
            return "noverdict", "vacuity witness not satisfiable: %s" % \
                "; ".join(c["description"] for c in parsed["unsat_covers"][:3])
        if parsed["covers_total"] < h["min_covers"]:
            return "noverdict", "expected >= %d cover witnesses, saw %d" % (h["min_covers"], parsed["covers_total"])
        return "ok", "all %d checks hold" % parsed["checks_total"]
    # FAILED
    if not failed:
        return "noverdict", "FAILED without a failed check (%s)" % "; ".join(parsed["errors"][:3])
    real = [c for c in failed if not any(p in c["description"] for p in NOVERDICT_PAT)]
    if not real:
        return "noverdict", "bound too small / unsupported construct: %s" % failed[0]["description"]
    return "violation_candidate", "; ".join("%s @ %s" % (c["description"], c["location"].split(" in function")[0])
                                            for c in real[:4])


class Scheduler:
    """Run jobs on slots under a total memory budget (GB)."""

    def __init__(self, nslots, mem_budget):
        self.nslots = nslots
        self.budget = mem_budget
        self.lock = threading.Condition()
        self.used = 0
        self.free_slots = list(range(nslots))

    def acquire(self, mem):
        with self.lock:
            while not self.free_slots or (self.used + mem > self.budget and self.used > 0):
                self.lock.wait()
            self.used += mem
            return self.free_slots.pop(0)

    def release(self, slot, mem):
        with self.lock:
            self.used -= mem
            self.free_slots.insert(0, slot)
            self.lock.notify_all()


def run_harnesses(harnesses, jobs=10, mem_budget=54, log_dir=None, progress=None):
    """Run all harnesses; returns list of result dicts (same order)."""
    log_dir = log_dir or os.path.join(CACHE, "logs")
    os.makedirs(log_dir, exist_ok=True)
    cwd_of = {}
    for s in sorted({h["suite"] for h in harnesses}):
        cwd_of[s] = prepare_suite(s)
    sched = Scheduler(jobs, mem_budget)
    results = [None] * len(harnesses)

    def work(i, h):
        slot = sched.acquire(h["mem"])
        try:
            log = os.path.join(log_dir, "%s.%s.log" % (h["suite"], h["name"]))
            cmd = kani_cmd(h["suite"], h["name"], slot)
            rc, to, wall = run_proc(cmd, cwd_of[h["suite"]], suite_env(h["suite"]), h["timeout"], h["mem"], log)
            parsed = parse_log(log)
            status, detail = classify(h, rc, to, parsed)
            results[i] = dict(harness=h, rc=rc, timed_out=to, wall_s=round(wall, 2), parsed=parsed,
                              status=status, detail=detail, log=log, slot=slot)
            if progress:
                progress(results[i])
        finally:
            sched.release(slot, h["mem"])

    threads = []
    # big jobs first: better packing
    order = sorted(range(len(harnesses)), key=lambda i: -harnesses[i]["timeout"])
    for i in order:
        t = threading.Thread(target=work, args=(i, harnesses[i]))
        t.start()
        threads.append(t)
    for t in threads:
        t.join()
    return results


# ---------------------------------------------------------------------------------------------
# Concrete playback → native replay
# ---------------------------------------------------------------------------------------------
RE_VEC = re.compile(r"^\s*vec!\[([0-9,\s]*)\],?\s*$")


def concrete_playback(h, slot=0, log_dir=None, include_covers=False):
    """Re-run the harness with concrete playback.

    Returns ([(kind, description, [byte vectors])...] for every non-cover check Kani generated a
    playback test for, log path). Kani prints one test per failed check and per satisfied cover.
    """
    log_dir = log_dir or os.path.join(CACHE, "logs")
    log = os.path.join(log_dir, "%s.%s.playback.log" % (h["suite"], h["name"]))
    cwd = prepare_suite(h["suite"])
    cmd = kani_cmd(h["suite"], h["name"], slot, extra=["-Z", "concrete-playback", "--concrete-playback=print"])
    rc, to, wall = run_proc(cmd, cwd, suite_env(h["suite"]), h["timeout"] * 2, max(h["mem"], 16), log)
    tests = []
    kind = desc = None
    vecs = None
    with open(log, errors="replace") as f:
        for line in f:
            m = re.match(r"^/// Check for `([^`]*)`: (.*)$", line.strip())
            if m:
                kind, desc = m.group(1), m.group(2).strip().strip('"')
                continue
            if "concrete_vals" in line and "vec![" in line:
                vecs = []
                continue
            if vecs is not None:
                m = RE_VEC.match(line)
                if m:
                    vecs.append([int(x) for x in m.group(1).replace(" ", "").split(",") if x != ""])
                elif "];" in line:
                    if kind != "cover" or include_covers:
                        tests.append((kind, desc, vecs))
                    vecs = None
                    kind = desc = None
    return tests, log


def native_replay(h, vecs, replay_path, modes=("dev", "release", "miri")):
    """Run the same scenario function natively with the recorded choices.

    Returns dict mode -> (reproduced: bool|None, detail). reproduced=None means infeasible replay
    (an assumption did not hold: exit code 3) or the mode could not be run.
    """
    spec = SUITES[h["suite"]]
    os.makedirs(os.path.dirname(replay_path), exist_ok=True)
    with open(replay_path, "w") as f:
        f.write("# property=%s suite=%s harness=%s\n" % (",".join(h["ids"]), h["suite"], h["name"]))
        for v in vecs:
            f.write(",".join(str(b) for b in v) + "\n")
    rdir = os.path.join(VERIF, spec["replay_bin"])
    if REPO != "/repo":
        # scratch repository: replay against it, not against /repo
        root = os.path.join(CACHE, "extsrc")
        dst = os.path.join(root, spec["replay_bin"])
        shutil.rmtree(dst, ignore_errors=True)
        shutil.copytree(rdir, dst, ignore=shutil.ignore_patterns("target", "Cargo.lock"))
        shutil.rmtree(os.path.join(root, "kani", "common"), ignore_errors=True)
        shutil.copytree(os.path.join(VERIF, "kani", "common"), os.path.join(root, "kani", "common"))
        ct = os.path.join(dst, "Cargo.toml")
        with open(ct) as f:
            txt = f.read().replace('"/repo/packages/', '"%s/packages/' % REPO)
        with open(ct, "w") as f:
            f.write(txt)
        rdir = dst
    shutil.copyfile(os.path.join(REPO, "Cargo.lock"), os.path.join(rdir, "Cargo.lock"))
    out = {}
    for mode in modes:
        env = env_base()
        env["FOLO_VERIF_REPLAY"] = replay_path
        env["RUSTFLAGS"] = "--cfg folo_verif"
        env["RUST_BACKTRACE"] = "0"
        env.update(spec.get("replay_env", {}))
        tdir = os.path.join(CACHE, "replay", h["suite"])
        if mode == "miri":
            env["MIRIFLAGS"] = "-Zmiri-disable-isolation -Zmiri-ignore-leaks"
            cmd = ["cargo", "+nightly", "miri", "run", "--offline", "--target-dir", tdir + "-miri", "--bin", "replay", "--", h["name"]]
        else:
            cmd = ["cargo", "run", "--offline", "--target-dir", tdir, "--bin", "replay"]
            if mode == "release":
                cmd.append("--release")
            cmd += ["--", h["name"]]
        log = os.path.join(CACHE, "logs", "%s.%s.replay-%s.log" % (h["suite"], h["name"], mode))
        rc, to, wall = run_proc(cmd, rdir, env, 900, 0, log)
        tail = ""
        try:
            with open(log, errors="replace") as f:
                ls = f.readlines()
            keep = [i for i, l in enumerate(ls) if "panicked at" in l or "Undefined Behavior" in l or "error: " in l or "SIGSEGV" in l or "double free" in l]
            tail = "".join("".join(ls[i:i + 3]) for i in keep[:4]) or "".join(ls[-8:])
        except OSError:
            pass
        if h["expect"] == "panic" and not to and rc not in (3, 4):
            if "could not compile" in tail:
                out[mode] = (None, "replay build failed: " + tail[-300:])
            else:
                out[mode] = (rc == 0, "ran to completion without the required panic" if rc == 0 else "panicked as required")
        elif to:
            out[mode] = (True, "hang (watchdog 900s)")
        elif rc == 0:
            out[mode] = (False, "ran to completion")
        elif rc == 3:
            out[mode] = (None, "replay infeasible (assumption violated)")
        elif "could not compile" in tail or "error: could not" in tail:
            out[mode] = (None, "replay build failed: " + tail[-300:])
        else:
            out[mode] = (True, "rc=%s: %s" % (rc, tail.strip()[:600]))
    return out
