"""Property table: which engines/suites decide which property (harness selection is by the
`// @verif id=...` annotations in the harness sources)."""

PROPS = {
    "C07": dict(
        kani_suites=["events_once_local"],
        assumptions=[
            "release-profile semantics (debug-assertions off: the debug-only backtrace capture and debug_assert paths are outside the claim)",
            "callbacks only reach endpoints that safe code could reach (an endpoint being polled / consumed is not available to a nested callback)",
            "Kani's MIR->goto translation, CBMC 6.11 and CaDiCaL are trusted; unwinding assertions are on",
        ],
        outside=["nesting depth > 2", "more than 5 top-level operations", "callbacks that panic (no unwinding in Kani)",
                 "embedded storage: release is a no-op in release builds, so exactly-one-release is only observable for boxed (CBMC double-free / use-after-free) and pooled (pool.len()==0) storage"],
    ),
}
