"""Property table: which engines/suites decide which property (harness selection is by the
`// @verif id=...` annotations in the harness sources)."""

PROPS = {
    "C07": dict(
        kani_suites=["events_once_local"],
        assumptions=[
            "release-profile semantics (debug-assertions off: the debug-only backtrace capture and debug_assert paths are outside the claim)",
            "callbacks only reach endpoints that safe code could reach (an endpoint being polled / consumed is not available to a nested callback)",
            "Kani's MIR->goto translation, CBMC 6.11 and CaDiCaL are trusted; unwinding assertions are on",
        ],
        outside=["nesting depth > 2", "more than 5 top-level operations", "callbacks that panic (no unwinding in Kani)",
                 "embedded storage: release is a no-op in release builds, so exactly-one-release is only observable for boxed (CBMC double-free / use-after-free) and pooled (pool.len()==0) storage"],
    ),
    "C01": dict(
        kani_suites=["infinity_pool"],
        assumptions=[
            "release-profile semantics (debug-assertions off; debug_assert paths outside the claim)",
            "capacity override hook H1 is the only behavioural difference (slab capacity 1..3 instead of >=32)",
            "pool-glue harnesses: Slab::{new,insert_with_unchecked,remove,drop} replaced by contract models that assert their own preconditions; the contracts are what the slab-level harnesses establish for the real Slab",
            "Vec::resize / Vec::reserve replaced by semantically equal models that only perform concrete-sized allocations (std Vec is trusted; its symbolic-size realloc path exhausts CBMC)",
            "vacancy index: shrink only over vacant (empty) slabs - the pool-glue harness shows shrink_to_fit only drops empty slabs",
            "Kani's MIR->goto translation, CBMC 6.11 and CaDiCaL are trusted; unwinding assertions are on",
        ],
        outside=["the six wrapper pools (Local*/thread-safe/Pinned/Blind over the raw pool): their minimal shape exhausts 20-28 GB (DESIGN.md P22)",
                 "real slabs inside a pool beyond one slab (direct pool shapes with two slabs exhaust 12 GB): covered compositionally (slab contract + glue)",
                 "slab capacities > 3 in executed slab harnesses (layout arithmetic covers every capacity)", "more than 4 slabs in a pool summary; vacancy index beyond 192 slabs",
                 "panicking initialisers / destructors (no unwinding in Kani)", "trait-object casts and blind-pool BTreeMap routing (only the layout key is decided)"],
    ),
    "C02": dict(
        kani_suites=["infinity_pool"],
        assumptions=[
            "release-profile semantics (debug-assertions off)",
            "capacity override hook H1 is the only behavioural difference",
            "catch_unwind = call the closure, resume_unwind = panic!() wherever a Slab is dropped (Kani has no unwinding)",
            "pool-glue harnesses use slab contract models (see C01)",
            "Kani's MIR->goto translation, CBMC 6.11 and CaDiCaL are trusted; unwinding assertions are on",
        ],
        outside=["reference-counted handles of the wrapper pools (Arc/Rc removers): wrapper pools do not fit (P22)",
                 "pool histories longer than one operation from an arbitrary summary are covered inductively, not executed",
                 "panicking destructors"],
    ),
    "C16": dict(
        kani_suites=["nm_impl"],
        assumptions=[
            "release-profile semantics (debug-assertions off)",
            "single thread; bags put into an arbitrary state through module-private accessors (hook H2)",
            "publication invariant assumed for the pre-state of copy_from/push: a bucket whose dirty bit is clear is already equal in the published bag, and dirty bits exist only for existing buckets - both are asserted as post-conditions of the insert harnesses (inductive)",
            "documented edge outside the claim: a batch that wraps the local count back to the value already pushed (push skip heuristic)",
            "Kani/CBMC/CaDiCaL trusted; unwinding assertions on",
        ],
        outside=["registries, thread-exit archiving and Report::collect (thread_local with destructors: unsupported in Kani, P4)", "concurrent reports / multiple threads",
                 "copy_from with more than 4 (12 thorough) dirty buckets at once", "bucket lists other than 0, 1, 3 symbolic bounds and the fixed 66-bound list"],
    ),
    "C18": dict(
        kani_suites=["alloc_tracker"],
        assumptions=[
            "release-profile semantics (debug-assertions off)", "single thread (Kani models thread_local as one static)",
            "the wrapped allocator is a recording stub returning a solver-chosen pointer; std::panic::catch_unwind = call the closure",
            "Operation constructed directly (Session/Report aggregation and rendering are outside)",
            "Kani/CBMC/CaDiCaL trusted; unwinding assertions on",
        ],
        outside=["multi-thread totals and spans merged across threads", "Session / Report aggregation, JSON output", "panic_on_next_alloc feature",
                 "more than 5 allocator calls per scenario; request sizes >= 2^40 (2^30 inside spans)"],
    ),
    "C11": dict(
        kani_suites=["many_cpus_impl"],
        assumptions=[
            "release-profile semantics (debug-assertions off)",
            "SmallVec::resize replaced by a semantically equal truncate/push model (symbolic-size growth does not fit in CBMC)",
            "Kani/CBMC/CaDiCaL trusted; unwinding assertions on",
        ],
        outside=["the Linux inventory itself (/proc/cpuinfo, node lists, cgroup files -> platform.rs): whole-file string scans over a mocked file system do not fit, and the mock seam exists only under cfg(test)",
                 "the id-list codec cpulist::{emit,parse}: no verdict within 15 min even for 3 ids / 3 bytes (DESIGN.md P11/P25)",
                 "mask widening (insert beyond the current width), masks wider than 2 words in executed harnesses, enumeration of more than one word"],
    ),
    "C05": dict(
        mirproto=dict(model="events_once", package="events_once", kcap_quick=64, kcap_thorough=96, timeout_quick=900, timeout_thorough=3600, assumptions=[]),
        assumptions=[
            "release-profile MIR (debug-assertions off): the debug-only backtrace mutex is outside the claim",
            "memory model: ONE atomic location (the state byte), so coherence makes the values read sequentially consistent; happens-before is tracked exactly with per-thread vector clocks under the orderings written in the source (release/acquire on stores, loads, RMWs, acquire and release fences, release sequences through RMWs). RMWs and failed compare_exchange read the latest value",
            "the four endpoint wrappers (SenderCore::{send,drop}, ReceiverCore::{poll,is_ready,into_value,drop}) are modelled by hand and pinned by a structural MIR fingerprint (callees, switch shapes, constants): a changed wrapper stops the check with 'no verdict'",
            "storage release is abstract: the call sites of release_event are modelled, not the bodies of the boxed / embedded / pooled implementations",
            "spin loops: runs in which a thread spins longer than the step bound are outside the bound (fair scheduling assumed)",
            "thread-local computation is executed concretely from the MIR; unknown callees / statements abort the extraction (fail closed)",
            "z3 (bit-blasting + SAT) is trusted",
        ],
        outside=["receiver programs longer than 2 (quick) / 3 (thorough) operations; more than 3 distinct wakers", "re-entrant waker callbacks on the thread-safe event (C07 covers the single-threaded event)",
                 "executions longer than the per-scenario step bound (spinning)", "pool / lake rental traffic"],
    ),
    "C06": dict(
        mirproto=dict(model="events_once", package="events_once", kcap_quick=64, kcap_thorough=96, timeout_quick=900, timeout_thorough=3600, assumptions=[]),
        assumptions=[
            "release-profile MIR (debug-assertions off): the debug-only backtrace mutex is outside the claim",
            "memory model: ONE atomic location (the state byte), so coherence makes the values read sequentially consistent; happens-before is tracked exactly with per-thread vector clocks under the orderings written in the source (release/acquire on stores, loads, RMWs, acquire and release fences, release sequences through RMWs). RMWs and failed compare_exchange read the latest value",
            "the four endpoint wrappers (SenderCore::{send,drop}, ReceiverCore::{poll,is_ready,into_value,drop}) are modelled by hand and pinned by a structural MIR fingerprint (callees, switch shapes, constants): a changed wrapper stops the check with 'no verdict'",
            "storage release is abstract: the call sites of release_event are modelled, not the bodies of the boxed / embedded / pooled implementations",
            "spin loops: runs in which a thread spins longer than the step bound are outside the bound (fair scheduling assumed)",
            "thread-local computation is executed concretely from the MIR; unknown callees / statements abort the extraction (fail closed)",
            "z3 (bit-blasting + SAT) is trusted",
        ],
        outside=["the bodies of release_event (dealloc / pool return) and many-thread rental traffic on pools and lakes", "receiver programs longer than 2 (quick) / 3 (thorough) operations",
                 "executions longer than the per-scenario step bound (spinning)"],
    ),
}
