#!/bin/sh
# Offline setup: nothing is downloaded or installed. Verifies that the pre-installed tools the
# checks need are present and creates the (git-ignored) cache directory. All harness crates are
# (re)built by the checks themselves from /repo's current working tree.
set -e
cd "$(dirname "$0")"
mkdir -p .cache/logs .cache/kani .cache/replay evidence
export CARGO_NET_OFFLINE=true
cargo kani --version
python3 -c "import json,sys; json.load(open('MANIFEST.json')); print('manifest ok')"
command -v z3 >/dev/null && z3 --version
command -v python3-vt >/dev/null && python3-vt -c "import z3; print('z3py', z3.get_version_string())"
echo setup-ok
