// Included into `infinity_pool::opaque::vacancy_map` under cfg(any(kani, folo_verif)) (hook H1).
// Module-private accessors only: construct an arbitrary map / read its representation.
impl VacancyMap {
    pub(crate) fn folo_verif_from_parts(blocks: Vec<BitBlock>, len_bits: usize) -> Self {
        Self { blocks, len_bits }
    }
    pub(crate) fn folo_verif_blocks(&self) -> &[BitBlock] {
        &self.blocks
    }
    /// Bit `i` of the representation (also for `i >= len`, inside allocated blocks).
    pub(crate) fn folo_verif_raw_bit(&self, i: usize) -> bool {
        (self.blocks[i / BITS_PER_BLOCK] >> (i % BITS_PER_BLOCK)) & 1 == 1
    }
}
pub(crate) fn folo_verif_mask_bits(block: BitBlock, start: usize, end_inclusive: usize) -> BitBlock {
    mask_bits(block, start, end_inclusive)
}
