// C01 / C02 — infinity_pool: layout arithmetic, vacancy index, slab, raw pool.
//
// This file is compiled as `infinity_pool::folo_verif` through hook H1
// (`#[cfg(any(kani, folo_verif))] pub mod folo_verif { include!(...) }`), so it sees crate-private
// items. Under Kani every `nd::*` choice is symbolic; natively (`--cfg folo_verif`) the same
// functions replay a counterexample. One harness = one function or one scenario shape; see
// DESIGN.md §4 C01/C02.

use std::alloc::Layout;
use std::any::Any;
use std::mem::MaybeUninit;
use std::num::NonZero;
#[allow(unused_imports)]
use std::panic::{catch_unwind, resume_unwind};
use std::sync::atomic::{AtomicUsize, Ordering};

use crate::*;

include!(concat!(env!("FOLO_VERIF_DIR"), "/kani/common/nd.rs"));
include!(concat!(env!("FOLO_VERIF_DIR"), "/kani/common/harness_macro.rs"));

// ---------------------------------------------------------------------------------------------
// Capacity override (the only behavioural hook): 0 = real capacity.
// ---------------------------------------------------------------------------------------------
//
// Kani 0.68 artefact (DESIGN.md P21, root-caused in the build phase): a `static` whose initial
// bytes equal those of some other constant of the crate graph (e.g. eight zero bytes = the `cap: 0`
// of `RawVec::NEW`) can end up sharing storage with that constant in the goto program, depending on
// symbol names; writing the static then corrupts every later `Vec::new()`. Harness statics therefore
// start from distinctive sentinel values that no other constant has, and are reset by each harness.
const NO_OVERRIDE: usize = 0x5EED_C0DE_0F01_0CA9;
static FOLO_VERIF_CAPACITY: AtomicUsize = AtomicUsize::new(NO_OVERRIDE);

pub(crate) fn capacity_override() -> Option<NonZero<usize>> {
    let c = FOLO_VERIF_CAPACITY.load(Ordering::Relaxed);
    if c == NO_OVERRIDE { None } else { NonZero::new(c) }
}
/// 0 = real capacity rule.
pub fn set_capacity(n: usize) {
    FOLO_VERIF_CAPACITY.store(if n == 0 { NO_OVERRIDE } else { n }, Ordering::Relaxed);
}

// Kani has no unwinding: catch_unwind = call the closure; reaching resume_unwind is a failure.
#[allow(dead_code)]
fn cu_stub<F: FnOnce() -> R + std::panic::UnwindSafe, R>(f: F) -> Result<R, Box<dyn Any + Send + 'static>> {
    Ok(f())
}
#[allow(dead_code)]
fn ru_stub(p: Box<dyn Any + Send>) -> ! {
    std::mem::forget(p);
    panic!("resume_unwind reached")
}

// ---------------------------------------------------------------------------------------------
// Counting payload
// ---------------------------------------------------------------------------------------------
static mut FOLO_VERIF_DROPS: [u8; 16] = [0xD5, 0x0F, 0xA1, 0x77, 0x3C, 0xE9, 0x42, 0x9B, 0x11, 0x23, 0x35, 0x47, 0x59, 0x6B, 0x7D, 0x8F]; // sentinel, see above
fn drops(i: usize) -> u8 {
    unsafe { (*(&raw const FOLO_VERIF_DROPS))[i] }
}
fn reset_drops() {
    unsafe {
        FOLO_VERIF_DROPS = [0; 16];
    }
}
pub struct D {
    id: u8,
    v: u64,
}
impl Drop for D {
    fn drop(&mut self) {
        unsafe {
            (*(&raw mut FOLO_VERIF_DROPS))[self.id as usize] += 1;
        }
    }
}
const DSZ: usize = std::mem::size_of::<D>();

fn disjoint(a: usize, b: usize, sz: usize) -> bool {
    a + sz <= b || b + sz <= a
}

// =============================================================================================
// 1. Layout arithmetic (real capacity rule, every size/alignment)
// =============================================================================================
fn layout_arith_body(max_size: usize) {
    set_capacity(0);
    let size = nd::usize();
    let align_log = nd::below(13);
    let align = 1_usize << align_log;
    nd::assume(size >= 1 && size <= max_size);
    let object = Layout::from_size_align(size, align).unwrap();
    let l = SlabLayout::new(object);
    let off = l.slot_to_object_offset();
    let stride = l.slot_layout().size();
    let salign = l.slot_layout().align();
    let cap = l.capacity().get();
    let meta = std::mem::size_of::<SlotMeta>();
    assert!(l.object_layout() == object, "object layout preserved");
    assert!(off % align == 0, "object offset aligned for the object");
    assert!(off >= meta, "object does not overlap its slot metadata");
    assert!(off + size <= stride, "object ends inside its slot");
    assert!(stride % salign == 0, "stride multiple of slot alignment");
    assert!(salign >= align && salign >= std::mem::align_of::<SlotMeta>(), "slot alignment covers both");
    assert!(salign % align == 0, "slot alignment is a multiple of the object alignment");
    assert!(cap >= 1, "capacity non-zero");
    assert!(cap >= 32, "documented minimum capacity");
    assert!(l.slot_array_layout().align() == salign, "array alignment");
    let total = l.slot_array_layout().size();
    assert!(total / cap == stride && total % cap == 0, "array size = stride * capacity, no overflow");
    // Any two distinct slots i < j < capacity: object i lies entirely before slot j's metadata.
    let i = nd::usize();
    let j = nd::usize();
    nd::assume(i < j && j < cap);
    let obj_i = i * stride + off;
    let slot_j = j * stride;
    assert!(obj_i + size <= slot_j, "object i ends before slot j begins");
    assert!(slot_j + off + size <= total, "object j inside the slot array");
    assert!((slot_j + off) % align == 0, "object j aligned relative to an aligned base");
    witness!(size > 1_000_000, "large object explored");
    witness!(size % align != 0, "size not a multiple of alignment explored");
    witness!(align == 4096, "page alignment explored");
    witness!(cap > 128, "capacity above the ideal explored");
    witness!(cap == 32, "minimum capacity explored");
}

// =============================================================================================
// 2. Vacancy map: one operation from an arbitrary representation-invariant state (3 blocks)
// =============================================================================================
const VM_MAX: usize = 192;

/// Mask with ones at bit positions `[lo, hi)` of block `k` (positions are absolute bit indexes).
fn ref_block_mask(k: usize, lo: usize, hi: usize) -> u64 {
    let b_lo = k * 64;
    let b_hi = b_lo + 64;
    let s = if lo > b_lo { lo } else { b_lo };
    let e = if hi < b_hi { hi } else { b_hi };
    if s >= e {
        return 0;
    }
    let n = e - s;
    let ones = if n == 64 { u64::MAX } else { (1_u64 << n) - 1 };
    ones << (s - b_lo)
}
fn ref_bit(b: &[u64; 3], i: usize) -> bool {
    (b[i / 64] >> (i % 64)) & 1 == 1
}
/// All bits in [lo, hi) are one (hi <= 192).
fn ref_all_ones(b: &[u64; 3], lo: usize, hi: usize) -> bool {
    let m0 = ref_block_mask(0, lo, hi);
    let m1 = ref_block_mask(1, lo, hi);
    let m2 = ref_block_mask(2, lo, hi);
    b[0] & m0 == m0 && b[1] & m1 == m1 && b[2] & m2 == m2
}
/// Lowest set bit in [lo, hi), straight-line reference.
fn ref_first_one(b: &[u64; 3], lo: usize, hi: usize) -> Option<usize> {
    let x0 = b[0] & ref_block_mask(0, lo, hi);
    if x0 != 0 {
        return Some(x0.trailing_zeros() as usize);
    }
    let x1 = b[1] & ref_block_mask(1, lo, hi);
    if x1 != 0 {
        return Some(64 + x1.trailing_zeros() as usize);
    }
    let x2 = b[2] & ref_block_mask(2, lo, hi);
    if x2 != 0 {
        return Some(128 + x2.trailing_zeros() as usize);
    }
    None
}
fn nblocks(len: usize) -> usize {
    (len + 63) / 64
}
/// Representation invariant the pool maintains: blocks = ceil(len/64) and every bit at or above
/// `len` inside the allocated blocks is 1 (fresh blocks are all-ones, slabs are only removed while
/// empty = vacant, and bits below `len` are the only ones ever cleared).
fn vm_invariant(b: &[u64; 3], len: usize) -> bool {
    ref_all_ones(b, len, nblocks(len) * 64)
}
fn vm_arbitrary() -> (VacancyMap, [u64; 3], usize) {
    let b = [nd::u64(), nd::u64(), nd::u64()];
    let len = nd::usize();
    nd::assume(len <= VM_MAX);
    nd::assume(vm_invariant(&b, len));
    let mut blocks = vec![b[0], b[1], b[2]];
    blocks.truncate(nblocks(len));
    (VacancyMap::folo_verif_from_parts(blocks, len), b, len)
}
/// Same, with a *concrete* number of blocks `ob` (keeps every `Vec` operation concrete-sized:
/// a symbolic `Vec` length sends CBMC into the reallocation path with a symbolic `memcpy`).
/// (Assumptions here are satisfiable for every `ob`, so code after a call stays reachable; an
/// early-return formulation instead of `assume` tripled the formula and ran out of memory.)
fn vm_arbitrary_blocks(ob: usize) -> (VacancyMap, [u64; 3], usize) {
    let b = [nd::u64(), nd::u64(), nd::u64()];
    let len = nd::usize();
    nd::assume(len <= VM_MAX && nblocks(len) == ob);
    nd::assume(vm_invariant(&b, len));
    let blocks = match ob {
        0 => Vec::new(),
        1 => vec![b[0]],
        2 => vec![b[0], b[1]],
        _ => vec![b[0], b[1], b[2]],
    };
    (VacancyMap::folo_verif_from_parts(blocks, len), b, len)
}
fn vm_snapshot(m: &VacancyMap) -> [u64; 3] {
    let bl = m.folo_verif_blocks();
    let mut out = [u64::MAX; 3];
    if bl.len() > 0 {
        out[0] = bl[0];
    }
    if bl.len() > 1 {
        out[1] = bl[1];
    }
    if bl.len() > 2 {
        out[2] = bl[2];
    }
    out
}

/// `max_fill`: bound on the number of bits the in-block fill loop of `resize` sets one by one
/// (growth that stays inside the partial last block); growth into new blocks is unrestricted.
fn resize_bound(len: usize, n: usize, max_fill: usize) -> bool {
    !(n > len && len % 64 != 0 && nblocks(n) == nblocks(len)) || n - len <= max_fill
}

/// Model of `Vec::resize` that only ever performs concrete-sized allocations: std's implementation
/// calls `reserve(additional)` with a symbolic `additional`, which sends CBMC into `realloc` with a
/// symbolic size (solver out of memory at 16 GB even for one block). Semantically equal to
/// `Vec::resize` (truncate, or append clones one by one); bounded to 3 appended elements.
#[cfg(kani)]
#[allow(dead_code)]
fn vec_resize_model<T: Clone, A: std::alloc::Allocator>(v: &mut Vec<T, A>, new_len: usize, value: T) {
    let len = v.len();
    if new_len <= len {
        v.truncate(new_len);
    } else {
        assert!(new_len - len <= 3, "vec_resize_model bound");
        let mut k = len;
        while k < new_len {
            v.push(value.clone());
            k += 1;
        }
    }
}

fn vm_resize_all(ob: usize, max_fill: usize) {
    let mut nb = 0;
    while nb <= 3 {
        vm_resize_body(ob, nb, max_fill);
        nb += 1;
    }
}
fn vm_resize_body(ob: usize, nb: usize, max_fill: usize) {
    let (mut m, b, len) = vm_arbitrary_blocks(ob);
    let n = nd::usize();
    nd::assume(n <= VM_MAX && nblocks(n) == nb);
    nd::assume(resize_bound(len, n, max_fill));
    // The pool only drops trailing slabs that are empty, i.e. whose vacancy bit is 1.
    nd::assume(n >= len || ref_all_ones(&b, n, len));
    m.resize(n, true);
    assert!(m.len() == n, "resize: length");
    assert!(m.folo_verif_blocks().len() == nblocks(n), "resize: block count");
    let a = vm_snapshot(&m);
    let keep = if n < len { n } else { len };
    let j = nd::usize(); // arbitrary bit (guard, not assume: later code must stay reachable)
    if j < n {
        if j < keep {
            assert!(ref_bit(&a, j) == ref_bit(&b, j), "resize: surviving bit unchanged");
        } else {
            assert!(ref_bit(&a, j), "resize: new bit is vacant");
        }
    }
    assert!(vm_invariant(&a, n), "resize: representation invariant re-established");
    witness!(len % 64 != 0 && n > len && nblocks(n) > nblocks(len), "grow from a partial block across a block boundary");
    witness!(len % 64 != 0 && n > len && nblocks(n) == nblocks(len), "grow inside a partial block");
    witness!(n < len && nblocks(n) < nblocks(len), "shrink across a block boundary");
    witness!(len == 64 && n == 65, "grow exactly over the 64-slab boundary");
    witness!(nb == 3, "end of the last resize case reachable");
}

fn vm_replace_body() {
    let (mut m, b, len) = vm_arbitrary();
    let i = nd::usize();
    nd::assume(i < len);
    let v = nd::bool();
    let old = unsafe { m.replace_unchecked(i, v) };
    assert!(old == ref_bit(&b, i), "replace: returns the previous bit");
    let a = vm_snapshot(&m);
    assert!(m.len() == len, "replace: length unchanged");
    assert!(ref_bit(&a, i) == v, "replace: bit written");
    let j = nd::usize();
    if j < nblocks(len) * 64 && j != i {
        assert!(ref_bit(&a, j) == ref_bit(&b, j), "replace: no other bit touched");
    }
    witness!(i == 63, "last bit of block 0");
    witness!(i == 64, "first bit of block 1");
    witness!(i == 191, "last bit of block 2");
}

fn vm_first_one_body() {
    let (m, b, len) = vm_arbitrary();
    let a = nd::usize();
    nd::assume(a <= VM_MAX + 1);
    match m.get(a..) {
        None => assert!(a > len, "get(a..): None only when out of range"),
        Some(slice) => {
            assert!(a <= len, "get(a..): Some only when in range");
            let got = slice.first_one();
            let j = nd::usize();
            match got {
                Some(r) => {
                    assert!(a + r < len, "first_one: inside the map");
                    assert!(ref_bit(&b, a + r), "first_one: points at a set bit");
                    if j >= a && j < a + r {
                        assert!(!ref_bit(&b, j), "first_one: no earlier set bit");
                    }
                    witness!(a < 64 && a + r >= 128, "scan crosses two block boundaries");
                    witness!(a == 63 && r == 1, "hit at first bit of the next block");
                }
                None => {
                    if j >= a && j < len {
                        assert!(!ref_bit(&b, j), "first_one: None means no set bit in range");
                    }
                    witness!(len == VM_MAX && a == 0, "full-width scan without hit");
                }
            }
            assert!(got == ref_first_one(&b, a, len).map(|x| x - a), "first_one: equals the reference");
        }
    }
}

fn vm_mask_bits_body() {
    let block = nd::u64();
    let s = nd::usize();
    let e = nd::usize();
    nd::assume(s <= e && e < 64);
    let got = crate::folo_verif_mask_bits(block, s, e);
    assert!(got == block & ref_block_mask(0, s, e + 1), "mask_bits keeps exactly [s, e]");
}

// =============================================================================================
// 3. Vacancy tracker: one operation from an arbitrary consistent state
// =============================================================================================
fn vt_arbitrary_blocks(ob: usize) -> (VacancyTracker, [u64; 3], usize) {
    let (m, b, len) = vm_arbitrary_blocks(ob);
    let next = ref_first_one(&b, 0, len);
    (VacancyTracker::folo_verif_from_parts(m, next), b, len)
}
fn vt_arbitrary() -> (VacancyTracker, [u64; 3], usize) {
    let (m, b, len) = vm_arbitrary();
    let next = ref_first_one(&b, 0, len);
    (VacancyTracker::folo_verif_from_parts(m, next), b, len)
}
fn vt_check(t: &VacancyTracker, what_len: usize) -> [u64; 3] {
    let a = vm_snapshot(t.folo_verif_map());
    assert!(t.folo_verif_map().len() == what_len, "tracker: slab count");
    assert!(vm_invariant(&a, what_len), "tracker: map invariant");
    assert!(t.next_vacancy() == ref_first_one(&a, 0, what_len), "tracker: next_vacancy is the lowest vacant slab");
    a
}

fn vt_update_count_all(ob: usize, max_fill: usize) {
    let mut nb = 0;
    while nb <= 3 {
        if ob == 0 && nb == 0 {
            nb += 1; // 0 -> 0 slabs is not a change: update_slab_count is never called for it
            continue;
        }
        vt_update_count_body(ob, nb, max_fill);
        nb += 1;
    }
}
fn vt_update_count_body(ob: usize, nb: usize, max_fill: usize) {
    let (mut t, b, len) = vt_arbitrary_blocks(ob);
    let n = nd::usize();
    nd::assume(n <= VM_MAX && n != len && nblocks(n) == nb);
    nd::assume(resize_bound(len, n, max_fill));
    nd::assume(n >= len || ref_all_ones(&b, n, len));
    t.update_slab_count(n);
    let a = vt_check(&t, n);
    let j = nd::usize();
    if j < n {
        if j < len {
            assert!(ref_bit(&a, j) == ref_bit(&b, j), "update_slab_count: existing slab status kept");
        } else {
            assert!(ref_bit(&a, j), "update_slab_count: new slab is vacant");
        }
    }
    witness!(len == 64 && n == 65 && ref_first_one(&b, 0, len).is_none(), "all 64 slabs full, 65th added");
    witness!(n < len && ref_first_one(&b, 0, len).map_or(false, |x| x >= n), "shrink removes the cached vacancy");
    witness!(nb == 3 || (ob == 3 && nb == 2), "end of the last update_slab_count case reachable");
}

fn vt_update_status_body() {
    let (mut t, b, len) = vt_arbitrary();
    let i = nd::usize();
    nd::assume(i < len);
    let v = nd::bool();
    unsafe { t.update_slab_status(i, v) };
    let a = vt_check(&t, len);
    assert!(ref_bit(&a, i) == v, "update_slab_status: status recorded");
    let j = nd::usize();
    if j < len && j != i {
        assert!(ref_bit(&a, j) == ref_bit(&b, j), "update_slab_status: other slabs untouched");
    }
    witness!(!v && ref_first_one(&b, 0, len) == Some(i) && i == 63 && ref_first_one(&b, 64, len).is_some(),
        "slab 63 fills, next vacancy is in the next block");
    witness!(!v && ref_first_one(&b, 0, len) == Some(i) && ref_first_one(&b, i + 1, len).is_none(), "last vacancy disappears");
    witness!(v && ref_first_one(&b, 0, len).map_or(false, |x| x > i), "vacancy appears before the cached one");
}

// =============================================================================================
// 4. Slab at tiny capacity: fill, solver-chosen removals, re-inserts, iteration, drop
// =============================================================================================
fn slab_insert(slab: &mut Slab, id: u8, v: u64) -> SlabHandle<D> {
    assert!(!slab.is_full(), "harness: insert precondition");
    unsafe {
        slab.insert_with_unchecked(|s: &mut MaybeUninit<D>| {
            s.write(D { id, v });
        })
    }
}
fn haddr(h: &SlabHandle<D>) -> usize {
    h.ptr().as_ptr() as usize
}
fn hval(h: &SlabHandle<D>) -> u64 {
    unsafe { h.ptr().as_ref().v }
}

/// Representation invariant of the slab (checked, never assumed): free list from
/// `next_free_slot_index` visits exactly the vacant slots (each once) and ends at `capacity`;
/// count = number of occupied slots.
fn slab_check_repr<const C: usize>(slab: &Slab) {
    let mut occupied = 0_usize;
    let mut k = 0;
    while k < C {
        if slab.folo_verif_slot_vacant_next(k).is_none() {
            occupied += 1;
        }
        k += 1;
    }
    assert!(slab.len() == occupied, "slab: count equals occupied slots");
    let mut seen = [false; C];
    let mut cur = slab.folo_verif_next_free();
    let mut steps = 0;
    while steps < C && cur < C {
        assert!(!seen[cur], "slab: free list has no cycle");
        seen[cur] = true;
        let nxt = slab.folo_verif_slot_vacant_next(cur);
        assert!(nxt.is_some(), "slab: free list only links vacant slots");
        cur = nxt.unwrap();
        steps += 1;
    }
    assert!(cur >= C, "slab: free list terminates past capacity");
    assert!(steps == C - occupied, "slab: free list covers every vacant slot");
}

fn slab_shape<const C: usize, const EXTRA: usize>(policy_may_drop: bool) {
    // C initial inserts, up to 2 solver-chosen removals (one may be remove_unpin), EXTRA re-inserts.
    reset_drops();
    set_capacity(C);
    let layout = SlabLayout::new(Layout::new::<D>());
    assert!(layout.capacity().get() == C);
    let policy = if policy_may_drop { DropPolicy::MayDropContents } else { DropPolicy::MustNotDropContents };
    let mut slab = Slab::new(layout, policy);
    let base = slab.folo_verif_base();
    let stride = layout.slot_layout().size();
    let off = layout.slot_to_object_offset();
    assert!(base % layout.slot_layout().align() == 0, "slab base aligned");
    slab_check_repr::<C>(&slab);

    let vals: [u64; 6] = [nd::u64(), nd::u64(), nd::u64(), nd::u64(), nd::u64(), nd::u64()];
    let mut hs: [Option<SlabHandle<D>>; 6] = [None, None, None, None, None, None];
    let mut live = [false; 6];
    let mut extracted = [false; 6];
    let mut addr = [0_usize; 6];
    let mut created = 0_usize;

    // fill
    let mut k = 0;
    while k < C {
        let h = slab_insert(&mut slab, k as u8, vals[k]);
        assert!(h.index() < C, "insert: index in range");
        assert!(haddr(&h) == base + h.index() * stride + off, "insert: address is the slot's object area");
        assert!(haddr(&h) % std::mem::align_of::<D>() == 0, "insert: aligned");
        addr[k] = haddr(&h);
        let mut q = 0;
        while q < k {
            assert!(disjoint(addr[q], addr[k], DSZ), "insert: disjoint from every live object");
            q += 1;
        }
        hs[k] = Some(h);
        live[k] = true;
        created += 1;
        k += 1;
    }
    assert!(slab.is_full() && slab.len() == C);
    slab_check_repr::<C>(&slab);

    // up to two removals, solver-chosen victims and kinds
    let mut removed = 0;
    let mut round = 0;
    while round < 2 {
        let which = nd::below(C as u8 + 1) as usize; // C = skip
        if which < C && live[which] {
            let h = hs[which].unwrap();
            let unpin = nd::bool();
            if unpin {
                let val = unsafe { slab.remove_unpin::<D>(h) };
                assert!(val.v == vals[which] && val.id == which as u8, "remove_unpin: value moved out intact");
                assert!(drops(which) == 0, "remove_unpin: destructor not run by the slab");
                std::mem::forget(val);
                extracted[which] = true;
            } else {
                unsafe { slab.remove(h) };
                assert!(drops(which) == 1, "remove: destructor ran exactly once");
            }
            live[which] = false;
            removed += 1;
            assert!(slab.len() == C - removed, "remove: count");
            assert!(!slab.is_full());
            slab_check_repr::<C>(&slab);
        }
        round += 1;
    }
    // other objects untouched
    let mut k = 0;
    while k < C {
        if live[k] {
            assert!(hval(&hs[k].unwrap()) == vals[k], "remove: other objects keep their value");
            assert!(drops(k) == 0, "remove: other objects not destroyed");
        }
        k += 1;
    }

    // EXTRA re-inserts while not full
    let mut e = 0;
    while e < EXTRA {
        if !slab.is_full() && nd::bool() {
            let id = C + e;
            let h = slab_insert(&mut slab, id as u8, vals[id]);
            assert!(h.index() < C, "re-insert: index in range");
            assert!(haddr(&h) == base + h.index() * stride + off, "re-insert: address is the slot's object area");
            addr[id] = haddr(&h);
            let mut q = 0;
            while q < id {
                if live[q] {
                    assert!(disjoint(addr[q], addr[id], DSZ), "re-insert: does not overlap a live object");
                }
                q += 1;
            }
            hs[id] = Some(h);
            live[id] = true;
            created += 1;
            slab_check_repr::<C>(&slab);
        }
        e += 1;
    }

    // accounting + iteration
    let mut nlive = 0;
    let mut k = 0;
    while k < C + EXTRA {
        if live[k] {
            nlive += 1;
            assert!(hval(&hs[k].unwrap()) == vals[k], "read-back through the handle");
            assert!(haddr(&hs[k].unwrap()) == addr[k], "address stable");
            assert!(drops(k) == 0, "live object not destroyed");
        }
        k += 1;
    }
    assert!(slab.len() == nlive && slab.is_empty() == (nlive == 0) && slab.is_full() == (nlive == C), "len/is_empty/is_full");
    {
        let mut it = slab.iter();
        assert!(it.len() == nlive, "iter: exact size");
        let mut prev = 0_usize;
        let mut n = 0;
        while n < C {
            match it.next() {
                Some(p) => {
                    let a = p.as_ptr() as usize;
                    assert!(n == 0 || a > prev, "iter: strictly increasing addresses = each object once");
                    let mut found = false;
                    let mut k = 0;
                    while k < C + EXTRA {
                        if live[k] && addr[k] == a {
                            found = true;
                        }
                        k += 1;
                    }
                    assert!(found, "iter: yields only live objects");
                    prev = a;
                    n += 1;
                }
                None => break,
            }
        }
        assert!(n == nlive, "iter: yields every live object");
        assert!(it.next().is_none(), "iter: fused");
    }
    {
        let mut it = slab.iter();
        let mut prev = usize::MAX;
        let mut n = 0;
        while n < C {
            match it.next_back() {
                Some(p) => {
                    let a = p.as_ptr() as usize;
                    assert!(a < prev, "iter(back): strictly decreasing");
                    prev = a;
                    n += 1;
                }
                None => break,
            }
        }
        assert!(n == nlive, "iter(back): yields every live object");
    }
    witness!(nlive == C && removed == 2, "two slots vacated and refilled");
    witness!(nlive == 0, "slab emptied");
    witness!(removed == 2 && nlive == C - 2, "two holes left");

    // drop
    if policy_may_drop || nlive == 0 {
        drop(slab);
        let mut k = 0;
        while k < C + EXTRA {
            if k < created || hs[k].is_some() {
                let expect = if hs[k].is_some() && !extracted[k] { 1 } else { 0 };
                assert!(drops(k) == expect, "every inserted object destroyed exactly once (never if extracted)");
            }
            k += 1;
        }
    } else {
        std::mem::forget(slab);
    }
}

fn slab_must_not_drop_nonempty() {
    reset_drops();
    set_capacity(2);
    let layout = SlabLayout::new(Layout::new::<D>());
    let mut slab = Slab::new(layout, DropPolicy::MustNotDropContents);
    let _h = slab_insert(&mut slab, 0, 1);
    drop(slab); // must panic
}

// =============================================================================================
// 5. Raw pool, direct shapes at capacity 2 (end-to-end cross-check of the layers)
// =============================================================================================
fn pool_shape_inserts(n: usize, with_drop: bool) {
    reset_drops();
    set_capacity(2);
    let mut pool = RawOpaquePool::with_layout_of::<D>();
    assert!(pool.len() == 0 && pool.is_empty() && pool.capacity() == 0);
    let vals: [u64; 3] = [nd::u64(), nd::u64(), nd::u64()];
    let mut hs: [Option<RawPooled<D>>; 3] = [None, None, None];
    let mut k = 0;
    while k < n {
        let h = pool.insert(D { id: k as u8, v: vals[k] }).into_shared();
        let a = h.ptr().as_ptr() as usize;
        assert!(a % std::mem::align_of::<D>() == 0, "pool insert: aligned");
        let mut q = 0;
        while q < k {
            let b = hs[q].unwrap().ptr().as_ptr() as usize;
            assert!(disjoint(a, b, DSZ), "pool insert: disjoint");
            q += 1;
        }
        hs[k] = Some(h);
        k += 1;
        assert!(pool.len() == k && !pool.is_empty(), "pool: len");
        assert!(pool.capacity() == 2 * ((k + 1) / 2), "pool: capacity grows by whole slabs");
    }
    let mut k = 0;
    while k < n {
        assert!(unsafe { hs[k].unwrap().as_ref().v } == vals[k], "pool: read-back");
        k += 1;
    }
    if with_drop {
        drop(pool);
        let mut k = 0;
        while k < n {
            assert!(drops(k) == 1, "pool drop: each object destroyed once");
            k += 1;
        }
    } else {
        std::mem::forget(pool);
    }
}

// =============================================================================================
// 5b. Pool glue, one operation from an arbitrary pool summary
//
// Under Kani the slab operations are replaced by their contracts (`folo_verif_slab_model`, stubs)
// and the pre-state is an ARBITRARY consistent summary (k slabs, any per-slab counts). Natively
// (counterexample replay) the same summary is built with real slabs through the public API at slab
// capacity 3 and the same operation and checks run against the real code.
// =============================================================================================
pub mod glue {
    use super::*;
    #[cfg(kani)]
    use crate::folo_verif_slab_model as sm;

    pub const GCAP: usize = 3;

    /// `Vec::reserve` with a concrete-sized allocation: reserves room for 8 elements in total (the
    /// harness never holds more), so `Vec::extend`'s bulk reservation does not become a
    /// symbolic-size reallocation. The vector length is concrete at every call site of the harness.
    #[cfg(kani)]
    pub fn vec_reserve_model<T, A: std::alloc::Allocator>(v: &mut Vec<T, A>, additional: usize) {
        assert!(v.len() + additional <= 8, "vec_reserve_model bound (8 elements)");
        if v.capacity() < 8 {
            v.reserve_exact(8 - v.len());
        }
    }

    /// `Vec::extend` from a bounded iterator as a push loop (same reason as `vec_resize_model`:
    /// std reserves `size_hint` elements at once, a symbolic-size reallocation).
    #[cfg(kani)]
    pub fn vec_extend_model<T, A: std::alloc::Allocator, I: IntoIterator<Item = T>>(v: &mut Vec<T, A>, iter: I) {
        let mut it = iter.into_iter();
        let mut n = 0;
        while n < 4 {
            match it.next() {
                Some(x) => v.push(x),
                None => return,
            }
            n += 1;
        }
        assert!(it.next().is_none(), "vec_extend_model bound (4 elements)");
    }

    fn lowest_vacant(counts: &[usize; 8], k: usize) -> Option<usize> {
        let mut i = 0;
        while i < k {
            if counts[i] < GCAP {
                return Some(i);
            }
            i += 1;
        }
        None
    }

    pub struct Ctx {
        pub policy: DropPolicy,
        pub pool: RawOpaquePool,
        pub counts: [usize; 8],
        pub bases: [usize; 8],
        pub k: usize,
        /// native replay only: live handles per slab
        pub live: Vec<(usize, RawPooled<D>)>,
    }

    /// Arbitrary pool summary with `k` (concrete) slabs: any per-slab count 0..=GCAP, tracker and
    /// length consistent with them (the invariant every operation is shown to re-establish).
    #[cfg(kani)]
    pub fn arbitrary_pool(k: usize) -> Ctx {
        sm::reset();
        set_capacity(GCAP);
        let layout = SlabLayout::new(Layout::new::<D>());
        let policy = if nd::bool() { DropPolicy::MustNotDropContents } else { DropPolicy::MayDropContents };
        let mut counts = [0_usize; 8];
        let mut bases = [0_usize; 8];
        let mut slabs: Vec<Slab> = Vec::new();
        let mut bits = u64::MAX;
        let mut total = 0;
        let mut i = 0;
        while i < 8 {
            bases[i] = sm::BASE0 + i * sm::BASE_STEP;
            i += 1;
        }
        let mut i = 0;
        while i < k {
            let c = nd::usize();
            nd::assume(c <= GCAP);
            counts[i] = c;
            let mut s = sm::new(layout, policy);
            s.folo_verif_set_count(c);
            slabs.push(s);
            if c == GCAP {
                bits &= !(1_u64 << i);
            }
            total += c;
            i += 1;
        }
        let blocks = if k == 0 { Vec::new() } else { vec![bits] };
        let map = VacancyMap::folo_verif_from_parts(blocks, k);
        let tracker = VacancyTracker::folo_verif_from_parts(map, lowest_vacant(&counts, k));
        let pool = RawOpaquePool::folo_verif_from_parts(layout, slabs, policy, total, tracker);
        Ctx { policy, pool, counts, bases, k, live: Vec::new() }
    }

    /// Native: the same summary, reached through the real API (fill k slabs, then remove).
    #[cfg(not(kani))]
    pub fn arbitrary_pool(k: usize) -> Ctx {
        reset_drops();
        set_capacity(GCAP);
        let policy = if nd::bool() { DropPolicy::MustNotDropContents } else { DropPolicy::MayDropContents };
        let mut pool = RawOpaquePool::builder().layout_of::<D>().drop_policy(policy).build();
        let mut counts = [0_usize; 8];
        let mut bases = [0_usize; 8];
        let mut all = Vec::new();
        for j in 0..k * GCAP {
            let h = pool.insert(D { id: j as u8, v: j as u64 }).into_shared();
            all.push((j / GCAP, h));
        }
        let mut live = Vec::new();
        for i in 0..k {
            let c = nd::usize();
            nd::assume(c <= GCAP);
            counts[i] = c;
            bases[i] = pool.folo_verif_slab(i).folo_verif_base();
            for (n, (si, h)) in all.iter().filter(|(si, _)| *si == i).enumerate() {
                if n < c {
                    live.push((*si, *h));
                } else {
                    unsafe { pool.remove(*h) };
                }
            }
        }
        Ctx { policy, pool, counts, bases, k, live }
    }

    pub fn check(ctx: &Ctx, counts: &[usize; 8], k: usize) {
        let pool = &ctx.pool;
        assert!(pool.folo_verif_slab_count() == k, "glue: number of slabs");
        assert!(pool.capacity() == k * GCAP, "glue: capacity = slabs * slab capacity");
        let t = pool.folo_verif_tracker();
        assert!(t.folo_verif_map().len() == k, "glue: tracker knows every slab");
        let mut total = 0;
        let mut i = 0;
        while i < k {
            let s = pool.folo_verif_slab(i);
            assert!(s.len() == counts[i], "glue: per-slab count");
            assert!(s.folo_verif_drop_policy() == ctx.policy, "glue: every slab (also one created by reserve / insert) carries the pool's drop policy");
            if cfg!(kani) || i < ctx.k {
                assert!(s.folo_verif_base() == ctx.bases[i], "glue: slabs never move or reorder");
            }
            assert!(t.folo_verif_map().folo_verif_raw_bit(i) == (counts[i] < GCAP), "glue: vacancy bit <=> slab not full");
            total += counts[i];
            i += 1;
        }
        assert!(pool.len() == total && pool.is_empty() == (total == 0), "glue: len = sum of slab counts");
        assert!(t.next_vacancy() == lowest_vacant(counts, k), "glue: cached lowest vacant slab");
        #[cfg(not(kani))]
        for (_, h) in &ctx.live {
            let d = unsafe { h.as_ref() };
            assert!(drops(d.id as usize) == 0 && d.v == d.id as u64, "glue(native): live object intact and not destroyed");
        }
    }
    #[cfg(kani)]
    fn dropped() -> usize {
        sm::dropped()
    }
    #[cfg(kani)]
    fn dropped_nonempty() -> usize {
        sm::dropped_nonempty()
    }

    pub fn step_insert(k: usize) {
        let mut ctx = arbitrary_pool(k);
        let mut counts = ctx.counts;
        let target = lowest_vacant(&counts, k).unwrap_or(k);
        #[cfg(kani)]
        let h = unsafe { ctx.pool.insert_with_unchecked(|_u: &mut MaybeUninit<D>| {}) };
        #[cfg(not(kani))]
        let h = ctx.pool.insert(D { id: 15, v: 15 });
        assert!(h.slab_index() == target, "insert: lowest vacant slab, else a new slab at the end");
        let a = h.ptr().as_ptr() as usize;
        let base = if cfg!(kani) || target < k { ctx.bases[target] } else { ctx.pool.folo_verif_slab(target).folo_verif_base() };
        let stride = ctx.pool.folo_verif_slab(target).folo_verif_layout().slot_layout().size();
        assert!(a >= base && a < base + GCAP * stride, "insert: object address lies in the chosen slab");
        ctx.live.push((target, h.into_shared()));
        counts[target] += 1;
        let nk = if target == k { k + 1 } else { k };
        check(&ctx, &counts, nk);
        #[cfg(kani)]
        assert!(dropped() == 0, "insert: no slab dropped");
        witness!(target == k && k > 0, "all slabs full: a new slab is appended");
        witness!(target < k && counts[target] == GCAP, "insert fills a slab");
        witness!(target + 1 < k && counts[target] == GCAP && lowest_vacant(&counts, k).is_some(), "next vacancy moves to a later slab");
        witness!(nk >= k, "end of the insert step reachable");
        std::mem::forget(ctx);
    }

    pub fn step_remove(k: usize) {
        let mut ctx = arbitrary_pool(k);
        let mut counts = ctx.counts;
        let i = nd::usize();
        if i < k && counts[i] > 0 {
            let idx = nd::usize();
            nd::assume(idx < GCAP);
            #[cfg(kani)]
            let h = {
                let layout = ctx.pool.folo_verif_slab(i).folo_verif_layout();
                let addr = ctx.bases[i] + idx * layout.slot_layout().size() + layout.slot_to_object_offset();
                RawPooled::new(i, SlabHandle::new(idx, std::ptr::NonNull::new(addr as *mut D).unwrap()))
            };
            #[cfg(not(kani))]
            let h = {
                let pos = ctx.live.iter().position(|(si, _)| *si == i).unwrap();
                ctx.live.remove(pos).1
            };
            unsafe { ctx.pool.remove(h) };
            counts[i] -= 1;
            check(&ctx, &counts, k);
            #[cfg(kani)]
            assert!(dropped() == 0, "remove: no slab dropped");
            witness!(counts[i] == GCAP - 1 && lowest_vacant(&counts, k) == Some(i) && i + 1 < k, "full slab gets a vacancy before the cached one");
            witness!(counts[i] == 0, "slab becomes empty");
        }
        witness!(k > 0, "end of the remove step reachable");
        std::mem::forget(ctx);
    }

    pub fn step_remove_unpin(k: usize) {
        let mut ctx = arbitrary_pool(k);
        let mut counts = ctx.counts;
        let i = nd::usize();
        if i < k && counts[i] > 0 {
            let idx = nd::usize();
            nd::assume(idx < GCAP);
            #[cfg(kani)]
            let h = {
                let layout = ctx.pool.folo_verif_slab(i).folo_verif_layout();
                let addr = ctx.bases[i] + idx * layout.slot_layout().size() + layout.slot_to_object_offset();
                RawPooled::new(i, SlabHandle::new(idx, std::ptr::NonNull::new(addr as *mut D).unwrap()))
            };
            #[cfg(not(kani))]
            let h = {
                let pos = ctx.live.iter().position(|(si, _)| *si == i).unwrap();
                ctx.live.remove(pos).1
            };
            // extraction by value: same bookkeeping obligations as remove (length, vacancy index), no destructor run by the pool
            let val = unsafe { ctx.pool.remove_unpin::<D>(h) };
            #[cfg(kani)]
            std::mem::forget(val);
            #[cfg(not(kani))]
            drop(val);
            counts[i] -= 1;
            check(&ctx, &counts, k);
            #[cfg(kani)]
            assert!(dropped() == 0, "remove_unpin: no slab dropped");
            witness!(counts[i] == GCAP - 1 && lowest_vacant(&counts, k) == Some(i) && i + 1 < k, "full slab gets a vacancy before the cached one");
            witness!(counts[i] == 0, "slab becomes empty");
        }
        witness!(k > 0, "end of the remove_unpin step reachable");
        std::mem::forget(ctx);
    }

    pub fn step_shrink(k: usize) {
        let mut ctx = arbitrary_pool(k);
        let counts = ctx.counts;
        let mut nk = 0;
        let mut i = 0;
        while i < k {
            if counts[i] > 0 {
                nk = i + 1;
            }
            i += 1;
        }
        ctx.pool.shrink_to_fit();
        #[cfg(kani)]
        {
            assert!(dropped_nonempty() == 0, "shrink_to_fit: never drops a slab that holds objects");
            assert!(dropped() == k - nk, "shrink_to_fit: drops exactly the trailing empty slabs");
        }
        check(&ctx, &counts, nk);
        witness!(nk < k && nk > 0, "some trailing slabs dropped");
        witness!(nk == k && k > 1 && counts[0] == 0, "empty slab in front of an occupied one is kept");
        witness!(nk == 0 && k > 0, "all slabs dropped");
        witness!(nk <= k, "end of the shrink step reachable");
        std::mem::forget(ctx);
    }

    pub fn step_reserve(k: usize) {
        let mut ctx = arbitrary_pool(k);
        let mut counts = ctx.counts;
        let n = nd::usize();
        nd::assume(n <= 6);
        let len = ctx.pool.len();
        ctx.pool.reserve(n);
        let need = (len + n + GCAP - 1) / GCAP;
        let nk = if need > k { need } else { k };
        let mut i = k;
        while i < nk {
            counts[i] = 0;
            i += 1;
        }
        assert!(ctx.pool.capacity() - ctx.pool.len() >= n, "reserve: room for n more objects");
        #[cfg(kani)]
        assert!(dropped() == 0, "reserve: no slab dropped");
        check(&ctx, &counts, nk);
        witness!(nk == k + 2, "two slabs added");
        witness!(nk == k && n > 0, "enough room already");
        witness!(nk >= k, "end of the reserve step reachable");
        std::mem::forget(ctx);
    }
}

// =============================================================================================
// 6. Blind-pool routing key
// =============================================================================================
fn layout_key_injective() {
    let s1 = nd::u32() as usize;
    let s2 = nd::u32() as usize;
    let a1 = 1_usize << nd::below(32);
    let a2 = 1_usize << nd::below(32);
    nd::assume(s1 <= isize::MAX as usize - a1 && s2 <= isize::MAX as usize - a2);
    let l1 = Layout::from_size_align(s1, a1).unwrap();
    let l2 = Layout::from_size_align(s2, a2).unwrap();
    let k1 = LayoutKey::new(l1);
    let k2 = LayoutKey::new(l2);
    assert!((k1 == k2) == (l1 == l2), "layout key equal iff layout equal");
    witness!(s1 == s2 && a1 != a2, "same size, different alignment");
}

// =============================================================================================
harnesses! {
    // @verif id=C01 tier=quick timeout=600 mem=8 expect=pass covers=5
    // @bounds SlabLayout::new + determine_capacity (real capacity rule): every object size 1..=2 MiB x alignment 2^0..2^12; arbitrary slot pair i<j<capacity
    fn c01_layout_arith_2mib [unwind 2] { layout_arith_body(2 << 20) }

    // @verif id=C01 tier=thorough timeout=1800 mem=16 expect=pass covers=5
    // @bounds as above with object size up to 64 MiB
    fn c01_layout_arith_64mib [unwind 2] { layout_arith_body(64 << 20) }

    // @verif id=C01 tier=quick timeout=600 mem=8 expect=pass witness=any covers=1
    // @bounds VacancyMap::resize(n,true) from an arbitrary invariant state with 0 block(s) (len<=192) to any n<=192; growth inside the partial last block by <=8 bits (inductive step)
    #[cfg_attr(kani, kani::stub(std::vec::Vec::resize, vec_resize_model))]
    fn c01_vacancy_map_resize_from0 [unwind 10] { vm_resize_all(0, 8) }

    // @verif id=C01 tier=quick timeout=600 mem=8 expect=pass witness=any covers=1
    // @bounds VacancyMap::resize(n,true) from an arbitrary invariant state with 1 block(s) (len<=192) to any n<=192; growth inside the partial last block by <=8 bits (inductive step)
    #[cfg_attr(kani, kani::stub(std::vec::Vec::resize, vec_resize_model))]
    fn c01_vacancy_map_resize_from1 [unwind 10] { vm_resize_all(1, 8) }

    // @verif id=C01 tier=quick timeout=600 mem=8 expect=pass witness=any covers=1
    // @bounds VacancyMap::resize(n,true) from an arbitrary invariant state with 2 block(s) (len<=192) to any n<=192; growth inside the partial last block by <=8 bits (inductive step)
    #[cfg_attr(kani, kani::stub(std::vec::Vec::resize, vec_resize_model))]
    fn c01_vacancy_map_resize_from2 [unwind 10] { vm_resize_all(2, 8) }

    // @verif id=C01 tier=quick timeout=600 mem=8 expect=pass witness=any covers=1
    // @bounds VacancyMap::resize(n,true) from an arbitrary invariant state with 3 block(s) (len<=192) to any n<=192; growth inside the partial last block by <=8 bits (inductive step)
    #[cfg_attr(kani, kani::stub(std::vec::Vec::resize, vec_resize_model))]
    fn c01_vacancy_map_resize_from3 [unwind 10] { vm_resize_all(3, 8) }

    // @verif id=C01 tier=thorough timeout=5400 mem=40 expect=pass witness=any covers=1
    // @bounds VacancyMap::resize(n,true) from 1 block, in-block growth unrestricted (fill loop up to 63 bits)
    #[cfg_attr(kani, kani::stub(std::vec::Vec::resize, vec_resize_model))]
    fn c01_vacancy_map_resize_fill63 [unwind 66] { vm_resize_body(1, 1, 64) }

    // @verif id=C01 tier=quick timeout=600 mem=8 expect=pass covers=3
    // @bounds VacancyMap::replace_unchecked(i,v) from an arbitrary invariant state: 3 blocks, len<=192
    fn c01_vacancy_map_replace [unwind 4] { vm_replace_body() }

    // @verif id=C01 tier=quick timeout=600 mem=8 expect=pass covers=3
    // @bounds VacancyMap::get(a..).first_one() (+ mask_bits) from an arbitrary invariant state: 3 blocks, len<=192, every start a
    fn c01_vacancy_map_first_one [unwind 5] { vm_first_one_body() }

    // @verif id=C01 tier=quick timeout=300 mem=8 expect=pass
    // @bounds mask_bits(block,s,e) for every u64 block and 0<=s<=e<64
    fn c01_vacancy_mask_bits [unwind 2] { vm_mask_bits_body() }

    // @verif id=C01,C02 tier=quick timeout=600 mem=8 expect=pass witness=any covers=1
    // @bounds VacancyTracker::update_slab_count(n) from an arbitrary consistent state with 0 block(s) of slabs (<=192) to any n<=192; in-block growth by <=8 slabs; shrink only over vacant slabs (inductive step)
    #[cfg_attr(kani, kani::stub(std::vec::Vec::resize, vec_resize_model))]
    fn c01_vacancy_tracker_count_from0 [unwind 10] { vt_update_count_all(0, 8) }

    // @verif id=C01,C02 tier=quick timeout=600 mem=8 expect=pass witness=any covers=1
    // @bounds VacancyTracker::update_slab_count(n) from an arbitrary consistent state with 1 block(s) of slabs (<=192) to any n<=192; in-block growth by <=8 slabs; shrink only over vacant slabs (inductive step)
    #[cfg_attr(kani, kani::stub(std::vec::Vec::resize, vec_resize_model))]
    fn c01_vacancy_tracker_count_from1 [unwind 10] { vt_update_count_all(1, 8) }

    // @verif id=C01,C02 tier=quick timeout=600 mem=8 expect=pass witness=any covers=1
    // @bounds VacancyTracker::update_slab_count(n) from an arbitrary consistent state with 2 block(s) of slabs (<=192) to any n<=192; in-block growth by <=8 slabs; shrink only over vacant slabs (inductive step)
    #[cfg_attr(kani, kani::stub(std::vec::Vec::resize, vec_resize_model))]
    fn c01_vacancy_tracker_count_from2 [unwind 10] { vt_update_count_all(2, 8) }

    // @verif id=C01,C02 tier=quick timeout=600 mem=8 expect=pass witness=any covers=1
    // @bounds VacancyTracker::update_slab_count(n) from an arbitrary consistent state with 3 block(s) of slabs (<=192) to any n<=192; in-block growth by <=8 slabs; shrink only over vacant slabs (inductive step)
    #[cfg_attr(kani, kani::stub(std::vec::Vec::resize, vec_resize_model))]
    fn c01_vacancy_tracker_count_from3 [unwind 10] { vt_update_count_all(3, 8) }

    // @verif id=C01,C02 tier=quick timeout=600 mem=8 expect=pass covers=3
    // @bounds VacancyTracker::update_slab_status(i,v) from an arbitrary consistent state: <=192 slabs (inductive step)
    fn c01_vacancy_tracker_status [unwind 5] { vt_update_status_body() }

    // @verif id=C01,C02 tier=quick timeout=900 mem=10 expect=pass covers=3
    // @bounds Slab capacity 2: fill; <=2 solver-chosen removals (remove | remove_unpin); <=2 re-inserts; forward/backward iteration; drop (MayDropContents)
    #[cfg_attr(kani, kani::stub(catch_unwind, cu_stub))]
    #[cfg_attr(kani, kani::stub(resume_unwind, ru_stub))]
    fn c01_slab_cap2 [unwind 6] { slab_shape::<2, 2>(true) }

    // @verif id=C01,C02 tier=thorough timeout=3600 mem=24 expect=pass witness=any covers=2
    // @bounds Slab capacity 3: fill; <=2 solver-chosen removals (remove | remove_unpin); <=2 re-inserts; iteration; drop (the "slab emptied" witness cannot hold with 2 removals of 3: two of the three witnesses are required)
    #[cfg_attr(kani, kani::stub(catch_unwind, cu_stub))]
    #[cfg_attr(kani, kani::stub(resume_unwind, ru_stub))]
    fn c01_slab_cap3 [unwind 7] { slab_shape::<3, 2>(true) }

    // @verif id=C02 tier=quick timeout=900 mem=10 expect=pass witness=any covers=1
    // @bounds Slab capacity 2 under MustNotDropContents: same shape; dropped only when empty (must not panic)
    #[cfg_attr(kani, kani::stub(catch_unwind, cu_stub))]
    #[cfg_attr(kani, kani::stub(resume_unwind, ru_stub))]
    fn c02_slab_cap2_must_not_drop_empty_ok [unwind 6] { slab_shape::<2, 1>(false) }

    // @verif id=C02 tier=quick timeout=300 mem=8 expect=panic
    // @bounds Slab under MustNotDropContents dropped while holding one object: must panic
    #[cfg_attr(kani, kani::stub(catch_unwind, cu_stub))]
    #[cfg_attr(kani, kani::stub(resume_unwind, ru_stub))]
    #[cfg_attr(kani, kani::should_panic)]
    fn c02_slab_must_not_drop_nonempty_panics [unwind 4] { slab_must_not_drop_nonempty() }

    // @verif id=C01,C02 tier=quick timeout=600 mem=10 expect=pass
    // @bounds RawOpaquePool capacity 2: insert, insert; drop pool
    #[cfg_attr(kani, kani::stub(catch_unwind, cu_stub))]
    #[cfg_attr(kani, kani::stub(resume_unwind, ru_stub))]
    fn c01_pool_ii_drop [unwind 4] { pool_shape_inserts(2, true) }

    // @verif id=C01,C02 tier=thorough timeout=3600 mem=30 expect=pass
    // @bounds RawOpaquePool capacity 2: insert x3 (second slab created); no drop
    #[cfg_attr(kani, kani::stub(catch_unwind, cu_stub))]
    #[cfg_attr(kani, kani::stub(resume_unwind, ru_stub))]
    fn c01_pool_iii [unwind 4] { pool_shape_inserts(3, false) }

    // @verif id=C01,C02 tier=quick timeout=900 mem=12 expect=pass witness=any covers=1
    // @bounds RawOpaquePool::insert_with_unchecked: ONE operation from an ARBITRARY consistent pool summary with 0 slab(s), per-slab count 0..=3 symbolic; slab operations replaced by their contracts (inductive step)
    #[cfg_attr(kani, kani::stub(crate::opaque::slab::Slab::new, crate::folo_verif_slab_model::new))]
    #[cfg_attr(kani, kani::stub(crate::opaque::slab::Slab::insert_with_unchecked, crate::folo_verif_slab_model::insert_with_unchecked))]
    #[cfg_attr(kani, kani::stub(crate::opaque::slab::Slab::remove, crate::folo_verif_slab_model::remove))]
    #[cfg_attr(kani, kani::stub(<crate::opaque::slab::Slab as std::ops::Drop>::drop, crate::folo_verif_slab_model::drop))]
    #[cfg_attr(kani, kani::stub(std::vec::Vec::resize, vec_resize_model))]
    #[cfg_attr(kani, kani::stub(std::vec::Vec::reserve, glue::vec_reserve_model))]
    fn c01_pool_glue_insert_k0 [unwind 9] { glue::step_insert(0) }

    // @verif id=C01,C02 tier=quick timeout=900 mem=12 expect=pass witness=any covers=1
    // @bounds RawOpaquePool::shrink_to_fit: ONE operation from an ARBITRARY consistent pool summary with 0 slab(s), per-slab count 0..=3 symbolic; slab operations replaced by their contracts (inductive step)
    #[cfg_attr(kani, kani::stub(crate::opaque::slab::Slab::new, crate::folo_verif_slab_model::new))]
    #[cfg_attr(kani, kani::stub(crate::opaque::slab::Slab::insert_with_unchecked, crate::folo_verif_slab_model::insert_with_unchecked))]
    #[cfg_attr(kani, kani::stub(crate::opaque::slab::Slab::remove, crate::folo_verif_slab_model::remove))]
    #[cfg_attr(kani, kani::stub(<crate::opaque::slab::Slab as std::ops::Drop>::drop, crate::folo_verif_slab_model::drop))]
    #[cfg_attr(kani, kani::stub(std::vec::Vec::resize, vec_resize_model))]
    #[cfg_attr(kani, kani::stub(std::vec::Vec::reserve, glue::vec_reserve_model))]
    fn c01_pool_glue_shrink_k0 [unwind 9] { glue::step_shrink(0) }

    // @verif id=C01,C02 tier=quick timeout=900 mem=12 expect=pass witness=any covers=1
    // @bounds RawOpaquePool::reserve(n<=6): ONE operation from an ARBITRARY consistent pool summary with 0 slab(s), per-slab count 0..=3 symbolic; slab operations replaced by their contracts (inductive step)
    #[cfg_attr(kani, kani::stub(crate::opaque::slab::Slab::new, crate::folo_verif_slab_model::new))]
    #[cfg_attr(kani, kani::stub(crate::opaque::slab::Slab::insert_with_unchecked, crate::folo_verif_slab_model::insert_with_unchecked))]
    #[cfg_attr(kani, kani::stub(crate::opaque::slab::Slab::remove, crate::folo_verif_slab_model::remove))]
    #[cfg_attr(kani, kani::stub(<crate::opaque::slab::Slab as std::ops::Drop>::drop, crate::folo_verif_slab_model::drop))]
    #[cfg_attr(kani, kani::stub(std::vec::Vec::resize, vec_resize_model))]
    #[cfg_attr(kani, kani::stub(std::vec::Vec::reserve, glue::vec_reserve_model))]
    fn c01_pool_glue_reserve_k0 [unwind 9] { glue::step_reserve(0) }

    // @verif id=C01,C02 tier=quick timeout=900 mem=12 expect=pass witness=any covers=1
    // @bounds RawOpaquePool::insert_with_unchecked: ONE operation from an ARBITRARY consistent pool summary with 1 slab(s), per-slab count 0..=3 symbolic; slab operations replaced by their contracts (inductive step)
    #[cfg_attr(kani, kani::stub(crate::opaque::slab::Slab::new, crate::folo_verif_slab_model::new))]
    #[cfg_attr(kani, kani::stub(crate::opaque::slab::Slab::insert_with_unchecked, crate::folo_verif_slab_model::insert_with_unchecked))]
    #[cfg_attr(kani, kani::stub(crate::opaque::slab::Slab::remove, crate::folo_verif_slab_model::remove))]
    #[cfg_attr(kani, kani::stub(<crate::opaque::slab::Slab as std::ops::Drop>::drop, crate::folo_verif_slab_model::drop))]
    #[cfg_attr(kani, kani::stub(std::vec::Vec::resize, vec_resize_model))]
    #[cfg_attr(kani, kani::stub(std::vec::Vec::reserve, glue::vec_reserve_model))]
    fn c01_pool_glue_insert_k1 [unwind 9] { glue::step_insert(1) }

    // @verif id=C01,C02 tier=quick timeout=900 mem=12 expect=pass witness=any covers=1
    // @bounds RawOpaquePool::remove(solver-chosen slab and slot): ONE operation from an ARBITRARY consistent pool summary with 1 slab(s), per-slab count 0..=3 symbolic; slab operations replaced by their contracts (inductive step)
    #[cfg_attr(kani, kani::stub(crate::opaque::slab::Slab::new, crate::folo_verif_slab_model::new))]
    #[cfg_attr(kani, kani::stub(crate::opaque::slab::Slab::insert_with_unchecked, crate::folo_verif_slab_model::insert_with_unchecked))]
    #[cfg_attr(kani, kani::stub(crate::opaque::slab::Slab::remove, crate::folo_verif_slab_model::remove))]
    #[cfg_attr(kani, kani::stub(<crate::opaque::slab::Slab as std::ops::Drop>::drop, crate::folo_verif_slab_model::drop))]
    #[cfg_attr(kani, kani::stub(std::vec::Vec::resize, vec_resize_model))]
    #[cfg_attr(kani, kani::stub(std::vec::Vec::reserve, glue::vec_reserve_model))]
    fn c01_pool_glue_remove_k1 [unwind 9] { glue::step_remove(1) }

    // @verif id=C01,C02 tier=quick timeout=900 mem=12 expect=pass witness=any covers=1
    // @bounds RawOpaquePool::remove_unpin(solver-chosen slab and slot; extraction by value): ONE operation from an ARBITRARY consistent pool summary with 1 slab(s), per-slab count 0..=3 symbolic; slab operations replaced by their contracts (inductive step)
    #[cfg_attr(kani, kani::stub(crate::opaque::slab::Slab::new, crate::folo_verif_slab_model::new))]
    #[cfg_attr(kani, kani::stub(crate::opaque::slab::Slab::insert_with_unchecked, crate::folo_verif_slab_model::insert_with_unchecked))]
    #[cfg_attr(kani, kani::stub(crate::opaque::slab::Slab::remove, crate::folo_verif_slab_model::remove))]
    #[cfg_attr(kani, kani::stub(crate::opaque::slab::Slab::remove_unpin, crate::folo_verif_slab_model::remove_unpin))]
    #[cfg_attr(kani, kani::stub(<crate::opaque::slab::Slab as std::ops::Drop>::drop, crate::folo_verif_slab_model::drop))]
    #[cfg_attr(kani, kani::stub(std::vec::Vec::resize, vec_resize_model))]
    #[cfg_attr(kani, kani::stub(std::vec::Vec::reserve, glue::vec_reserve_model))]
    fn c01_pool_glue_remove_unpin_k1 [unwind 9] { glue::step_remove_unpin(1) }

    // @verif id=C01,C02 tier=quick timeout=900 mem=12 expect=pass witness=any covers=1
    // @bounds RawOpaquePool::shrink_to_fit: ONE operation from an ARBITRARY consistent pool summary with 1 slab(s), per-slab count 0..=3 symbolic; slab operations replaced by their contracts (inductive step)
    #[cfg_attr(kani, kani::stub(crate::opaque::slab::Slab::new, crate::folo_verif_slab_model::new))]
    #[cfg_attr(kani, kani::stub(crate::opaque::slab::Slab::insert_with_unchecked, crate::folo_verif_slab_model::insert_with_unchecked))]
    #[cfg_attr(kani, kani::stub(crate::opaque::slab::Slab::remove, crate::folo_verif_slab_model::remove))]
    #[cfg_attr(kani, kani::stub(<crate::opaque::slab::Slab as std::ops::Drop>::drop, crate::folo_verif_slab_model::drop))]
    #[cfg_attr(kani, kani::stub(std::vec::Vec::resize, vec_resize_model))]
    #[cfg_attr(kani, kani::stub(std::vec::Vec::reserve, glue::vec_reserve_model))]
    fn c01_pool_glue_shrink_k1 [unwind 9] { glue::step_shrink(1) }

    // @verif id=C01,C02 tier=quick timeout=900 mem=12 expect=pass witness=any covers=1
    // @bounds RawOpaquePool::reserve(n<=6): ONE operation from an ARBITRARY consistent pool summary with 1 slab(s), per-slab count 0..=3 symbolic; slab operations replaced by their contracts (inductive step)
    #[cfg_attr(kani, kani::stub(crate::opaque::slab::Slab::new, crate::folo_verif_slab_model::new))]
    #[cfg_attr(kani, kani::stub(crate::opaque::slab::Slab::insert_with_unchecked, crate::folo_verif_slab_model::insert_with_unchecked))]
    #[cfg_attr(kani, kani::stub(crate::opaque::slab::Slab::remove, crate::folo_verif_slab_model::remove))]
    #[cfg_attr(kani, kani::stub(<crate::opaque::slab::Slab as std::ops::Drop>::drop, crate::folo_verif_slab_model::drop))]
    #[cfg_attr(kani, kani::stub(std::vec::Vec::resize, vec_resize_model))]
    #[cfg_attr(kani, kani::stub(std::vec::Vec::reserve, glue::vec_reserve_model))]
    fn c01_pool_glue_reserve_k1 [unwind 9] { glue::step_reserve(1) }

    // @verif id=C01,C02 tier=quick timeout=900 mem=12 expect=pass witness=any covers=1
    // @bounds RawOpaquePool::insert_with_unchecked: ONE operation from an ARBITRARY consistent pool summary with 2 slab(s), per-slab count 0..=3 symbolic; slab operations replaced by their contracts (inductive step)
    #[cfg_attr(kani, kani::stub(crate::opaque::slab::Slab::new, crate::folo_verif_slab_model::new))]
    #[cfg_attr(kani, kani::stub(crate::opaque::slab::Slab::insert_with_unchecked, crate::folo_verif_slab_model::insert_with_unchecked))]
    #[cfg_attr(kani, kani::stub(crate::opaque::slab::Slab::remove, crate::folo_verif_slab_model::remove))]
    #[cfg_attr(kani, kani::stub(<crate::opaque::slab::Slab as std::ops::Drop>::drop, crate::folo_verif_slab_model::drop))]
    #[cfg_attr(kani, kani::stub(std::vec::Vec::resize, vec_resize_model))]
    #[cfg_attr(kani, kani::stub(std::vec::Vec::reserve, glue::vec_reserve_model))]
    fn c01_pool_glue_insert_k2 [unwind 9] { glue::step_insert(2) }

    // @verif id=C01,C02 tier=quick timeout=900 mem=12 expect=pass witness=any covers=1
    // @bounds RawOpaquePool::remove(solver-chosen slab and slot): ONE operation from an ARBITRARY consistent pool summary with 2 slab(s), per-slab count 0..=3 symbolic; slab operations replaced by their contracts (inductive step)
    #[cfg_attr(kani, kani::stub(crate::opaque::slab::Slab::new, crate::folo_verif_slab_model::new))]
    #[cfg_attr(kani, kani::stub(crate::opaque::slab::Slab::insert_with_unchecked, crate::folo_verif_slab_model::insert_with_unchecked))]
    #[cfg_attr(kani, kani::stub(crate::opaque::slab::Slab::remove, crate::folo_verif_slab_model::remove))]
    #[cfg_attr(kani, kani::stub(<crate::opaque::slab::Slab as std::ops::Drop>::drop, crate::folo_verif_slab_model::drop))]
    #[cfg_attr(kani, kani::stub(std::vec::Vec::resize, vec_resize_model))]
    #[cfg_attr(kani, kani::stub(std::vec::Vec::reserve, glue::vec_reserve_model))]
    fn c01_pool_glue_remove_k2 [unwind 9] { glue::step_remove(2) }

    // @verif id=C01,C02 tier=quick timeout=900 mem=12 expect=pass witness=any covers=1
    // @bounds RawOpaquePool::remove_unpin(solver-chosen slab and slot; extraction by value): ONE operation from an ARBITRARY consistent pool summary with 2 slab(s), per-slab count 0..=3 symbolic; slab operations replaced by their contracts (inductive step)
    #[cfg_attr(kani, kani::stub(crate::opaque::slab::Slab::new, crate::folo_verif_slab_model::new))]
    #[cfg_attr(kani, kani::stub(crate::opaque::slab::Slab::insert_with_unchecked, crate::folo_verif_slab_model::insert_with_unchecked))]
    #[cfg_attr(kani, kani::stub(crate::opaque::slab::Slab::remove, crate::folo_verif_slab_model::remove))]
    #[cfg_attr(kani, kani::stub(crate::opaque::slab::Slab::remove_unpin, crate::folo_verif_slab_model::remove_unpin))]
    #[cfg_attr(kani, kani::stub(<crate::opaque::slab::Slab as std::ops::Drop>::drop, crate::folo_verif_slab_model::drop))]
    #[cfg_attr(kani, kani::stub(std::vec::Vec::resize, vec_resize_model))]
    #[cfg_attr(kani, kani::stub(std::vec::Vec::reserve, glue::vec_reserve_model))]
    fn c01_pool_glue_remove_unpin_k2 [unwind 9] { glue::step_remove_unpin(2) }

    // @verif id=C01,C02 tier=quick timeout=900 mem=12 expect=pass witness=any covers=1
    // @bounds RawOpaquePool::shrink_to_fit: ONE operation from an ARBITRARY consistent pool summary with 2 slab(s), per-slab count 0..=3 symbolic; slab operations replaced by their contracts (inductive step)
    #[cfg_attr(kani, kani::stub(crate::opaque::slab::Slab::new, crate::folo_verif_slab_model::new))]
    #[cfg_attr(kani, kani::stub(crate::opaque::slab::Slab::insert_with_unchecked, crate::folo_verif_slab_model::insert_with_unchecked))]
    #[cfg_attr(kani, kani::stub(crate::opaque::slab::Slab::remove, crate::folo_verif_slab_model::remove))]
    #[cfg_attr(kani, kani::stub(<crate::opaque::slab::Slab as std::ops::Drop>::drop, crate::folo_verif_slab_model::drop))]
    #[cfg_attr(kani, kani::stub(std::vec::Vec::resize, vec_resize_model))]
    #[cfg_attr(kani, kani::stub(std::vec::Vec::reserve, glue::vec_reserve_model))]
    fn c01_pool_glue_shrink_k2 [unwind 9] { glue::step_shrink(2) }

    // @verif id=C01,C02 tier=quick timeout=900 mem=12 expect=pass witness=any covers=1
    // @bounds RawOpaquePool::reserve(n<=6): ONE operation from an ARBITRARY consistent pool summary with 2 slab(s), per-slab count 0..=3 symbolic; slab operations replaced by their contracts (inductive step)
    #[cfg_attr(kani, kani::stub(crate::opaque::slab::Slab::new, crate::folo_verif_slab_model::new))]
    #[cfg_attr(kani, kani::stub(crate::opaque::slab::Slab::insert_with_unchecked, crate::folo_verif_slab_model::insert_with_unchecked))]
    #[cfg_attr(kani, kani::stub(crate::opaque::slab::Slab::remove, crate::folo_verif_slab_model::remove))]
    #[cfg_attr(kani, kani::stub(<crate::opaque::slab::Slab as std::ops::Drop>::drop, crate::folo_verif_slab_model::drop))]
    #[cfg_attr(kani, kani::stub(std::vec::Vec::resize, vec_resize_model))]
    #[cfg_attr(kani, kani::stub(std::vec::Vec::reserve, glue::vec_reserve_model))]
    fn c01_pool_glue_reserve_k2 [unwind 9] { glue::step_reserve(2) }

    // @verif id=C01,C02 tier=quick timeout=900 mem=12 expect=pass witness=any covers=1
    // @bounds RawOpaquePool::insert_with_unchecked: ONE operation from an ARBITRARY consistent pool summary with 3 slab(s), per-slab count 0..=3 symbolic; slab operations replaced by their contracts (inductive step)
    #[cfg_attr(kani, kani::stub(crate::opaque::slab::Slab::new, crate::folo_verif_slab_model::new))]
    #[cfg_attr(kani, kani::stub(crate::opaque::slab::Slab::insert_with_unchecked, crate::folo_verif_slab_model::insert_with_unchecked))]
    #[cfg_attr(kani, kani::stub(crate::opaque::slab::Slab::remove, crate::folo_verif_slab_model::remove))]
    #[cfg_attr(kani, kani::stub(<crate::opaque::slab::Slab as std::ops::Drop>::drop, crate::folo_verif_slab_model::drop))]
    #[cfg_attr(kani, kani::stub(std::vec::Vec::resize, vec_resize_model))]
    #[cfg_attr(kani, kani::stub(std::vec::Vec::reserve, glue::vec_reserve_model))]
    fn c01_pool_glue_insert_k3 [unwind 9] { glue::step_insert(3) }

    // @verif id=C01,C02 tier=quick timeout=900 mem=12 expect=pass witness=any covers=1
    // @bounds RawOpaquePool::remove(solver-chosen slab and slot): ONE operation from an ARBITRARY consistent pool summary with 3 slab(s), per-slab count 0..=3 symbolic; slab operations replaced by their contracts (inductive step)
    #[cfg_attr(kani, kani::stub(crate::opaque::slab::Slab::new, crate::folo_verif_slab_model::new))]
    #[cfg_attr(kani, kani::stub(crate::opaque::slab::Slab::insert_with_unchecked, crate::folo_verif_slab_model::insert_with_unchecked))]
    #[cfg_attr(kani, kani::stub(crate::opaque::slab::Slab::remove, crate::folo_verif_slab_model::remove))]
    #[cfg_attr(kani, kani::stub(<crate::opaque::slab::Slab as std::ops::Drop>::drop, crate::folo_verif_slab_model::drop))]
    #[cfg_attr(kani, kani::stub(std::vec::Vec::resize, vec_resize_model))]
    #[cfg_attr(kani, kani::stub(std::vec::Vec::reserve, glue::vec_reserve_model))]
    fn c01_pool_glue_remove_k3 [unwind 9] { glue::step_remove(3) }

    // @verif id=C01,C02 tier=quick timeout=900 mem=12 expect=pass witness=any covers=1
    // @bounds RawOpaquePool::remove_unpin(solver-chosen slab and slot; extraction by value): ONE operation from an ARBITRARY consistent pool summary with 3 slab(s), per-slab count 0..=3 symbolic; slab operations replaced by their contracts (inductive step)
    #[cfg_attr(kani, kani::stub(crate::opaque::slab::Slab::new, crate::folo_verif_slab_model::new))]
    #[cfg_attr(kani, kani::stub(crate::opaque::slab::Slab::insert_with_unchecked, crate::folo_verif_slab_model::insert_with_unchecked))]
    #[cfg_attr(kani, kani::stub(crate::opaque::slab::Slab::remove, crate::folo_verif_slab_model::remove))]
    #[cfg_attr(kani, kani::stub(crate::opaque::slab::Slab::remove_unpin, crate::folo_verif_slab_model::remove_unpin))]
    #[cfg_attr(kani, kani::stub(<crate::opaque::slab::Slab as std::ops::Drop>::drop, crate::folo_verif_slab_model::drop))]
    #[cfg_attr(kani, kani::stub(std::vec::Vec::resize, vec_resize_model))]
    #[cfg_attr(kani, kani::stub(std::vec::Vec::reserve, glue::vec_reserve_model))]
    fn c01_pool_glue_remove_unpin_k3 [unwind 9] { glue::step_remove_unpin(3) }

    // @verif id=C01,C02 tier=quick timeout=900 mem=12 expect=pass witness=any covers=1
    // @bounds RawOpaquePool::shrink_to_fit: ONE operation from an ARBITRARY consistent pool summary with 3 slab(s), per-slab count 0..=3 symbolic; slab operations replaced by their contracts (inductive step)
    #[cfg_attr(kani, kani::stub(crate::opaque::slab::Slab::new, crate::folo_verif_slab_model::new))]
    #[cfg_attr(kani, kani::stub(crate::opaque::slab::Slab::insert_with_unchecked, crate::folo_verif_slab_model::insert_with_unchecked))]
    #[cfg_attr(kani, kani::stub(crate::opaque::slab::Slab::remove, crate::folo_verif_slab_model::remove))]
    #[cfg_attr(kani, kani::stub(<crate::opaque::slab::Slab as std::ops::Drop>::drop, crate::folo_verif_slab_model::drop))]
    #[cfg_attr(kani, kani::stub(std::vec::Vec::resize, vec_resize_model))]
    #[cfg_attr(kani, kani::stub(std::vec::Vec::reserve, glue::vec_reserve_model))]
    fn c01_pool_glue_shrink_k3 [unwind 9] { glue::step_shrink(3) }

    // @verif id=C01,C02 tier=quick timeout=900 mem=12 expect=pass witness=any covers=1
    // @bounds RawOpaquePool::reserve(n<=6): ONE operation from an ARBITRARY consistent pool summary with 3 slab(s), per-slab count 0..=3 symbolic; slab operations replaced by their contracts (inductive step)
    #[cfg_attr(kani, kani::stub(crate::opaque::slab::Slab::new, crate::folo_verif_slab_model::new))]
    #[cfg_attr(kani, kani::stub(crate::opaque::slab::Slab::insert_with_unchecked, crate::folo_verif_slab_model::insert_with_unchecked))]
    #[cfg_attr(kani, kani::stub(crate::opaque::slab::Slab::remove, crate::folo_verif_slab_model::remove))]
    #[cfg_attr(kani, kani::stub(<crate::opaque::slab::Slab as std::ops::Drop>::drop, crate::folo_verif_slab_model::drop))]
    #[cfg_attr(kani, kani::stub(std::vec::Vec::resize, vec_resize_model))]
    #[cfg_attr(kani, kani::stub(std::vec::Vec::reserve, glue::vec_reserve_model))]
    fn c01_pool_glue_reserve_k3 [unwind 9] { glue::step_reserve(3) }

    // @verif id=C01 tier=quick timeout=300 mem=8 expect=pass covers=1
    // @bounds LayoutKey::new for every pair of layouts with size < 2^32 and alignment 2^0..2^31
    fn c01_layout_key_injective [unwind 2] { layout_key_injective() }

    // @verif id=C01,C02 tier=quick timeout=900 mem=10 expect=fail
    // @bounds vacuity twin of c01_slab_cap2
    #[cfg_attr(kani, kani::stub(catch_unwind, cu_stub))]
    #[cfg_attr(kani, kani::stub(resume_unwind, ru_stub))]
    fn c01_twin_slab_cap2_must_fail [unwind 6] {
        slab_shape::<2, 2>(true);
        assert!(false, "vacuity twin: reachable end of scenario");
    }
}
