// Included into `infinity_pool::opaque::vacancy_tracker` under cfg(any(kani, folo_verif)) (hook H1).
impl VacancyTracker {
    pub(crate) fn folo_verif_from_parts(has_vacancy: VacancyMap, next_vacancy: Option<usize>) -> Self {
        Self { has_vacancy, next_vacancy }
    }
    pub(crate) fn folo_verif_map(&self) -> &VacancyMap {
        &self.has_vacancy
    }
}
