// Included into `infinity_pool::opaque::slab` under cfg(any(kani, folo_verif)) (hook H1).
// Read-only probes of the slab representation + the count setter used by the pool-glue harness.
impl Slab {
    pub(crate) fn folo_verif_base(&self) -> usize {
        self.first_slot_ptr.as_ptr() as usize
    }
    pub(crate) fn folo_verif_next_free(&self) -> usize {
        self.next_free_slot_index
    }
    pub(crate) fn folo_verif_layout(&self) -> SlabLayout {
        self.layout
    }
    pub(crate) fn folo_verif_drop_policy(&self) -> DropPolicy {
        self.drop_policy
    }
    /// `Some(next)` if slot `index` is vacant, `None` if occupied. `index < capacity`.
    pub(crate) fn folo_verif_slot_vacant_next(&self, index: usize) -> Option<usize> {
        // SAFETY: caller passes index < capacity; slots are always initialised SlotMeta values.
        let meta = unsafe { self.slot_ptr_unchecked(index).as_ref() };
        match meta {
            SlotMeta::Vacant { next_free_slot_index } => Some(*next_free_slot_index),
            SlotMeta::Occupied { .. } => None,
        }
    }
    /// Address of the object area of slot `index`.
    pub(crate) fn folo_verif_object_addr(&self, index: usize) -> usize {
        // SAFETY: caller passes index < capacity.
        unsafe { self.object_ptr_unchecked::<u8>(index).as_ptr() as usize }
    }
    /// Pool-glue contract harness only: overrides the cached count (the slots stay vacant).
    pub(crate) fn folo_verif_set_count(&mut self, count: usize) {
        self.count = count;
    }
}

// ---------------------------------------------------------------------------------------------
// Contract models of the slab, used ONLY by the pool-glue harness through `#[kani::stub]`
// (DESIGN.md §4 C01 item 4). A model slab owns no heap memory: it is identified by a synthetic
// base address and carries the real `count`; the per-slot behaviour it abstracts is what the
// slab-level harnesses establish for the real `Slab`. Every model asserts its own precondition.
// ---------------------------------------------------------------------------------------------
#[cfg(kani)]
pub(crate) mod folo_verif_slab_model {
    use super::*;

    pub(crate) const BASE0: usize = 0x0100_0000;
    pub(crate) const BASE_STEP: usize = 0x0001_0000;
    // Ghost state (sentinel initial values: see harness.rs on the Kani static artefact).
    pub(crate) static mut FOLO_VERIF_MODEL_NEXT_ID: usize = 0x5EED_0001_0000_0007;
    pub(crate) static mut FOLO_VERIF_MODEL_DROPPED_NONEMPTY: usize = 0x5EED_0002_0000_0007;
    pub(crate) static mut FOLO_VERIF_MODEL_DROPPED: usize = 0x5EED_0003_0000_0007;
    pub(crate) static mut FOLO_VERIF_MODEL_CREATED: usize = 0x5EED_0004_0000_0007;

    pub(crate) fn reset() {
        unsafe {
            FOLO_VERIF_MODEL_NEXT_ID = 0;
            FOLO_VERIF_MODEL_DROPPED_NONEMPTY = 0;
            FOLO_VERIF_MODEL_DROPPED = 0;
            FOLO_VERIF_MODEL_CREATED = 0;
        }
    }
    pub(crate) fn dropped_nonempty() -> usize {
        unsafe { FOLO_VERIF_MODEL_DROPPED_NONEMPTY }
    }
    pub(crate) fn dropped() -> usize {
        unsafe { FOLO_VERIF_MODEL_DROPPED }
    }
    pub(crate) fn created() -> usize {
        unsafe { FOLO_VERIF_MODEL_CREATED }
    }

    pub(crate) fn new(layout: SlabLayout, drop_policy: DropPolicy) -> Slab {
        let id = unsafe {
            let id = FOLO_VERIF_MODEL_NEXT_ID;
            FOLO_VERIF_MODEL_NEXT_ID += 1;
            FOLO_VERIF_MODEL_CREATED += 1;
            id
        };
        Slab {
            layout,
            drop_policy,
            first_slot_ptr: NonNull::new((BASE0 + id * BASE_STEP) as *mut SlotMeta).unwrap(),
            next_free_slot_index: 0,
            count: 0,
        }
    }

    /// Contract: precondition `!is_full()`; returns a handle to some slot of THIS slab; count + 1.
    pub(crate) unsafe fn insert_with_unchecked<T, F>(slab: &mut Slab, f: F) -> SlabHandle<T>
    where
        F: FnOnce(&mut MaybeUninit<T>),
    {
        let cap = slab.layout.capacity().get();
        assert!(slab.count < cap, "slab contract: insert into a full slab");
        mem::forget(f);
        let index: usize = kani::any();
        kani::assume(index < cap);
        slab.count += 1;
        let addr = slab.first_slot_ptr.as_ptr() as usize
            + index * slab.layout.slot_layout().size()
            + slab.layout.slot_to_object_offset();
        SlabHandle::new(index, NonNull::new(addr as *mut T).unwrap())
    }

    /// Contract: the handle designates an occupied slot of THIS slab; count - 1.
    pub(crate) unsafe fn remove<T: ?Sized>(slab: &mut Slab, handle: SlabHandle<T>) {
        let cap = slab.layout.capacity().get();
        let base = slab.first_slot_ptr.as_ptr() as usize;
        let addr = handle.ptr().as_ptr().cast::<u8>() as usize;
        assert!(slab.count > 0, "slab contract: remove from an empty slab");
        assert!(handle.index() < cap, "slab contract: handle index in range");
        assert!(
            addr == base + handle.index() * slab.layout.slot_layout().size() + slab.layout.slot_to_object_offset(),
            "slab contract: handle belongs to this slab"
        );
        slab.count -= 1;
    }

    /// Contract: like `remove`, but the value is moved out instead of being destroyed (the harness forgets the stand-in).
    pub(crate) unsafe fn remove_unpin<T: Unpin>(slab: &mut Slab, handle: SlabHandle<T>) -> T {
        let cap = slab.layout.capacity().get();
        let base = slab.first_slot_ptr.as_ptr() as usize;
        let addr = handle.ptr().as_ptr().cast::<u8>() as usize;
        assert!(slab.count > 0, "slab contract: remove_unpin from an empty slab");
        assert!(handle.index() < cap, "slab contract: handle index in range");
        assert!(
            addr == base + handle.index() * slab.layout.slot_layout().size() + slab.layout.slot_to_object_offset(),
            "slab contract: handle belongs to this slab"
        );
        slab.count -= 1;
        unsafe { mem::zeroed() }
    }

    /// Contract of `Drop`: records whether a slab that still holds objects is dropped.
    pub(crate) fn drop(slab: &mut Slab) {
        unsafe {
            FOLO_VERIF_MODEL_DROPPED += 1;
            if slab.count != 0 {
                FOLO_VERIF_MODEL_DROPPED_NONEMPTY += 1;
            }
        }
    }
}
