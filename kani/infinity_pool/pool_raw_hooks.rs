// Included into `infinity_pool::opaque::pool_raw` under cfg(any(kani, folo_verif)) (hook H1).
impl RawOpaquePool {
    pub(crate) fn folo_verif_slab_count(&self) -> usize {
        self.slabs.len()
    }
    pub(crate) fn folo_verif_slab(&self, i: usize) -> &Slab {
        &self.slabs[i]
    }
    pub(crate) fn folo_verif_slab_mut(&mut self, i: usize) -> &mut Slab {
        &mut self.slabs[i]
    }
    pub(crate) fn folo_verif_tracker(&self) -> &VacancyTracker {
        &self.vacancy_tracker
    }
    pub(crate) fn folo_verif_tracker_mut(&mut self) -> &mut VacancyTracker {
        &mut self.vacancy_tracker
    }
    pub(crate) fn folo_verif_set_length(&mut self, n: usize) {
        self.length = n;
    }
    pub(crate) fn folo_verif_slab_capacity(&self) -> usize {
        self.slab_layout.capacity().get()
    }
}

#[cfg(kani)]
impl RawOpaquePool {
    /// Pool-glue harness only: a pool assembled from given parts (slabs are contract models).
    pub(crate) fn folo_verif_from_parts(
        slab_layout: SlabLayout,
        slabs: Vec<Slab>,
        drop_policy: DropPolicy,
        length: usize,
        vacancy_tracker: VacancyTracker,
    ) -> Self {
        Self { slab_layout, slabs, drop_policy, length, vacancy_tracker }
    }
}
