// Included into `cbh_stats::stats` under cfg(any(kani, folo_verif)): wrappers for module-private functions.
pub(crate) fn folo_verif_exact_tail_p_values(counts: &[f64]) -> Vec<f64> {
    exact_tail_p_values(counts)
}
pub(crate) fn folo_verif_same(a: f64, b: f64) -> bool {
    same(a, b)
}
pub(crate) fn folo_verif_tie_group_sizes(values: &[f64]) -> Vec<usize> {
    tie_group_sizes(values)
}
