// C20 (part) — cbh_stats: reporting range of p-values and the rank layer against brute force.
// Compiled as `cbh_stats::folo_verif`. Float code is restricted to comparisons, conversions of small
// integers and a handful of additions / divisions; everything that goes through exp / erfc / the
// continued fraction / the exact rank-sum DP is outside (DESIGN.md P13).
use crate::{clamp_p_value, exact_mw_feasible, mann_whitney_tie_term, median, pettitt_rank_location, scaled_average_ranks};
use crate::{folo_verif_exact_tail_p_values, folo_verif_same};

include!(concat!(env!("FOLO_VERIF_DIR"), "/kani/common/nd.rs"));
include!(concat!(env!("FOLO_VERIF_DIR"), "/kani/common/harness_macro.rs"));

const MIN_P: f64 = 1e-15;

fn in_range(p: f64) -> bool {
    p >= MIN_P && p <= 1.0
}

fn clamp_all() {
    let p = nd::f64();
    let r = clamp_p_value(p);
    assert!(in_range(r), "clamped p-value lies in [1e-15, 1]");
    if p.is_nan() || p.is_infinite() {
        assert!(r == 1.0, "non-finite intermediate result means 'no evidence'");
    } else if p >= MIN_P && p <= 1.0 {
        assert!(r == p, "values already in range pass through unchanged");
    } else if p < MIN_P {
        assert!(r == MIN_P, "vanishing / negative values are floored");
    } else {
        assert!(r == 1.0, "values above one are capped");
    }
    witness!(p.is_nan(), "NaN");
    witness!(p == f64::NEG_INFINITY, "-inf");
    witness!(p > 0.0 && p < MIN_P, "positive but below the floor");
    witness!(p.is_subnormal(), "subnormal");
}

/// Every exact-tail p-value is reportable, for any non-negative finite counts (2 or 3 of them).
fn exact_tail_range(n: usize) {
    let c = [nd::f64(), nd::f64(), nd::f64()];
    let mut i = 0;
    while i < n {
        nd::assume(c[i].is_finite() && c[i] >= 0.0 && c[i] <= 9.1e15);
        i += 1;
    }
    let out = if n == 2 { folo_verif_exact_tail_p_values(&[c[0], c[1]]) } else { folo_verif_exact_tail_p_values(&[c[0], c[1], c[2]]) };
    assert!(out.len() == n);
    let mut i = 0;
    while i < n {
        assert!(in_range(out[i]), "exact tail p-value lies in the reportable range");
        i += 1;
    }
    witness!(c[0] == 1.0 && c[1] > 4.0e15, "a tail below the floor before clamping");
}

/// Brute-force definition of the doubled average rank under the code's documented order (total_cmp).
fn brute_rank(v: &[f64], i: usize) -> usize {
    let mut less = 0;
    let mut equal = 0;
    let mut j = 0;
    while j < v.len() {
        if folo_verif_same(v[j], v[i]) {
            equal += 1;
        } else if v[j].total_cmp(&v[i]) == std::cmp::Ordering::Less {
            less += 1;
        }
        j += 1;
    }
    2 * less + equal + 1
}

fn ranks3() {
    let a = [nd::f64(), nd::f64(), nd::f64()];
    let r = scaled_average_ranks(&a);
    assert!(r.len() == 3);
    let mut i = 0;
    while i < 3 {
        assert!(r[i] == brute_rank(&a, i), "scaled average rank = 2*#smaller + #equal + 1");
        i += 1;
    }
    // invariance under a strictly increasing transformation: any second vector with the same order
    let b = [nd::f64(), nd::f64(), nd::f64()];
    let mut same_order = true;
    let mut i = 0;
    while i < 3 {
        let mut j = 0;
        while j < 3 {
            if a[i].total_cmp(&a[j]) != b[i].total_cmp(&b[j]) {
                same_order = false;
            }
            j += 1;
        }
        i += 1;
    }
    if same_order {
        let rb = scaled_average_ranks(&b);
        assert!(rb[0] == r[0] && rb[1] == r[1] && rb[2] == r[2], "ranks depend only on the order of the data");
    }
    assert!(r[0] + r[1] + r[2] == 12, "doubled ranks sum to n(n+1)");
    witness!(folo_verif_same(a[0], a[1]) && !folo_verif_same(a[1], a[2]), "one tie pair");
    witness!(a[0] == 0.0 && a[1] == 0.0 && !folo_verif_same(a[0], a[1]), "-0.0 and +0.0 are distinct in the documented order");
    witness!(a[0].is_nan(), "NaN input ranked by total order");
}

/// Pettitt location on doubled ranks: first index with the largest |U_t|, its prefix rank sum, |U_t|.
fn pettitt_loc(n: usize) {
    let r = [nd::usize(), nd::usize(), nd::usize(), nd::usize()];
    let mut i = 0;
    while i < n {
        nd::assume(r[i] >= 1 && r[i] <= 2 * n);
        i += 1;
    }
    let got = match n {
        2 => pettitt_rank_location(&[r[0], r[1]]),
        3 => pettitt_rank_location(&[r[0], r[1], r[2]]),
        _ => pettitt_rank_location(&[r[0], r[1], r[2], r[3]]),
    };
    // brute force over the splits t = 1 .. n-1 in integers: U_t = prefix - t*(n+1)
    let mut best_t = 1;
    let mut best_abs: i64 = -1;
    let mut best_sum = 0;
    let mut prefix: i64 = 0;
    let mut t = 1;
    while t < n {
        prefix += r[t - 1] as i64;
        let u = prefix - (t as i64) * (n as i64 + 1);
        let abs = if u < 0 { -u } else { u };
        if abs > best_abs {
            best_abs = abs;
            best_t = t;
            best_sum = prefix as usize;
        }
        t += 1;
    }
    let (gi, gs, ga) = got.unwrap();
    assert!(gi == best_t, "Pettitt location = first split with the largest |U_t|");
    assert!(gs == best_sum, "prefix rank sum at that split (also when every U_t is zero)");
    assert!(ga == best_abs as f64, "Pettitt statistic");
    witness!(best_abs == 0, "flat series: every U_t is zero");
    witness!(best_t == n - 1, "change at the last split");
}

fn tie_term3() {
    let r = [nd::usize(), nd::usize(), nd::usize()];
    nd::assume(r[0] <= 8 && r[1] <= 8 && r[2] <= 8);
    let got = mann_whitney_tie_term(&[r[0], r[1], r[2]]);
    let all = r[0] == r[1] && r[1] == r[2];
    let pair = !all && (r[0] == r[1] || r[1] == r[2] || r[0] == r[2]);
    let exp = if all { 24.0 } else if pair { 6.0 } else { 0.0 };
    assert!(got == exp, "tie term = sum over tie groups of g^3 - g");
}

/// C(n1+n2, min) < 2^53, against exact integer arithmetic in u128, for all n1, n2 <= 40.
fn feasible_small() {
    let n1 = nd::usize();
    let n2 = nd::usize();
    nd::assume(n1 <= 40 && n2 <= 40);
    let got = exact_mw_feasible(n1, n2);
    // C(80,40) ~ 1.07e23 > 2^53; the threshold C(n,k) >= 2^53 first happens at C(57,28)
    let n = n1 + n2;
    let k = if n1 < n2 { n1 } else { n2 };
    let mut c: u128 = 1;
    let mut i = 1;
    let mut over = false;
    while i <= 40 {
        if i <= k && !over {
            c = c * ((n - k + i) as u128) / (i as u128);
            if c >= (1_u128 << 53) {
                over = true;
            }
        }
        i += 1;
    }
    assert!(got == !over, "exact test used exactly while the split count fits an f64 mantissa");
}

fn same_bits(a: f64, b: f64) -> bool {
    a.to_bits() == b.to_bits() || (a.is_nan() && b.is_nan())
}

/// median of 3 arbitrary f64 = the middle element of the documented total order; of 2 = their midpoint.
fn median3() {
    let v = [nd::f64(), nd::f64(), nd::f64()];
    let m = median(&v).unwrap();
    let mut less = 0;
    let mut greater = 0;
    let mut is_input = false;
    let mut i = 0;
    while i < 3 {
        match v[i].total_cmp(&m) {
            std::cmp::Ordering::Less => less += 1,
            std::cmp::Ordering::Greater => greater += 1,
            std::cmp::Ordering::Equal => is_input = true,
        }
        i += 1;
    }
    assert!(is_input && less <= 1 && greater <= 1, "median of three = middle element under total_cmp");
    let w = [nd::f64(), nd::f64()];
    nd::assume(w[0].is_finite() && w[1].is_finite()); // the midpoint of +inf and -inf is NaN by IEEE arithmetic; data is infinite-free
    let m2 = median(&w).unwrap();
    let (lo, hi) = if w[0].total_cmp(&w[1]) == std::cmp::Ordering::Greater { (w[1], w[0]) } else { (w[0], w[1]) };
    assert!(same_bits(m2, f64::midpoint(lo, hi)), "median of two = midpoint of the ordered pair");
    assert!(median(&[]).is_none());
    witness!(less == 1 && greater == 1, "strict middle");
    witness!(v[0].is_nan(), "NaN present");
}

harnesses! {
    // @verif id=C20 tier=quick timeout=900 mem=12 expect=pass covers=2
    // @bounds median of 3 ARBITRARY f64 (NaN, infinities, signed zeros) and of 2 arbitrary finite f64 vs the order definition
    fn c20_median_3_and_2 [unwind 5] { median3() }

    // @verif id=C20 tier=quick timeout=300 mem=8 expect=pass covers=4
    // @bounds clamp_p_value for EVERY f64 (NaN, infinities, subnormals, negatives included)
    fn c20_clamp_p_value_all_f64 [unwind 2] { clamp_all() }

    // @verif id=C20 tier=quick timeout=900 mem=12 expect=pass covers=1
    // @bounds exact_tail_p_values on 2 arbitrary finite non-negative counts (<= 9.1e15): every reported p in [1e-15, 1]
    fn c20_exact_tail_range_2 [unwind 4] { exact_tail_range(2) }

    // @verif id=C20 tier=thorough timeout=3600 mem=30 expect=pass covers=1
    // @bounds exact_tail_p_values on 3 arbitrary finite non-negative counts
    fn c20_exact_tail_range_3 [unwind 5] { exact_tail_range(3) }

    // @verif id=C20 tier=quick timeout=900 mem=12 expect=pass covers=3
    // @bounds scaled_average_ranks on 3 ARBITRARY f64 (NaN, -0.0, infinities) vs the brute-force definition under total_cmp; invariance under any order-preserving change of the data
    fn c20_scaled_ranks_3 [unwind 5] { ranks3() }

    // @verif id=C20 tier=quick timeout=900 mem=12 expect=pass covers=2
    // @bounds pettitt_rank_location on 3 doubled ranks in 1..=6 vs integer brute force (location, prefix rank sum, statistic)
    fn c20_pettitt_location_3 [unwind 5] { pettitt_loc(3) }

    // @verif id=C20 tier=quick timeout=900 mem=12 expect=pass witness=any covers=1
    // @bounds pettitt_rank_location on 2 and on 4 doubled ranks
    fn c20_pettitt_location_2_4 [unwind 6] { pettitt_loc(2); pettitt_loc(4) }

    // @verif id=C20 tier=quick timeout=600 mem=10 expect=pass
    // @bounds mann_whitney_tie_term on 3 scaled ranks <= 8 vs the definition
    fn c20_tie_term_3 [unwind 5] { tie_term3() }

    // @verif id=C20 tier=thorough timeout=9000 mem=30 expect=pass
    // @bounds exact_mw_feasible(n1,n2) for all n1,n2 <= 40 vs exact u128 binomials
    fn c20_exact_feasible_40 [unwind 42] { feasible_small() }

    // @verif id=C20 tier=quick timeout=300 mem=8 expect=fail
    // @bounds vacuity twin of c20_clamp_p_value_all_f64
    fn c20_twin_clamp_must_fail [unwind 2] {
        clamp_all();
        assert!(false, "vacuity twin: reachable end of scenario");
    }
}
