/// Declares harnesses: a `#[kani::proof]` under Kani, a plain function natively (counterexample
/// replay). Extra attributes (stubs, should_panic) are written as `#[cfg_attr(kani, kani::...)]`.
macro_rules! harnesses {
    ($( $(#[$attr:meta])* fn $name:ident [unwind $u:literal] $body:block )*) => {
        $(
            $(#[$attr])*
            #[cfg_attr(kani, kani::proof)]
            #[cfg_attr(kani, kani::unwind($u))]
            pub fn $name() $body
        )*
        pub const ALL: &[(&str, fn())] = &[ $( (stringify!($name), $name as fn()) ),* ];
    };
}
