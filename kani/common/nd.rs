// Choice plumbing shared by every harness crate/module (included with `include!`).
//
// Under Kani every choice is a fresh symbolic value (`kani::any`) constrained with `kani::assume`.
// In a native build (`cfg(not(kani))`) the same calls read the concrete byte vectors that Kani's
// concrete playback printed for a counterexample (file named by `FOLO_VERIF_REPLAY`, one
// comma-separated byte vector per line, in `kani::any` call order), so that the *same scenario
// function* replays the counterexample against the real build before a violation is reported.
#[allow(dead_code, unreachable_pub, missing_docs, clippy::all, clippy::pedantic, clippy::nursery, clippy::restriction)]
pub mod nd {
    #[cfg(not(kani))]
    mod replay {
        use std::cell::RefCell;
        thread_local! {
            static QUEUE: RefCell<Option<std::collections::VecDeque<Vec<u8>>>> = const { RefCell::new(None) };
        }
        fn load() -> std::collections::VecDeque<Vec<u8>> {
            let mut q = std::collections::VecDeque::new();
            if let Ok(path) = std::env::var("FOLO_VERIF_REPLAY") {
                if let Ok(text) = std::fs::read_to_string(path) {
                    for line in text.lines() {
                        let line = line.trim();
                        if line.is_empty() || line.starts_with('#') {
                            continue;
                        }
                        q.push_back(
                            line.split(',')
                                .filter(|s| !s.trim().is_empty())
                                .map(|s| s.trim().parse::<u8>().expect("byte"))
                                .collect(),
                        );
                    }
                }
            }
            q
        }
        pub fn next<const N: usize>() -> [u8; N] {
            QUEUE.with(|q| {
                let mut q = q.borrow_mut();
                let q = q.get_or_insert_with(load);
                let mut out = [0_u8; N];
                if let Some(v) = q.pop_front() {
                    for (o, b) in out.iter_mut().zip(v.iter()) {
                        *o = *b;
                    }
                }
                out
            })
        }
    }

    macro_rules! any_int {
        ($name:ident, $t:ty, $n:expr) => {
            #[cfg(kani)]
            pub fn $name() -> $t {
                kani::any()
            }
            #[cfg(not(kani))]
            pub fn $name() -> $t {
                <$t>::from_ne_bytes(replay::next::<$n>())
            }
        };
    }
    any_int!(u8, u8, 1);
    any_int!(u16, u16, 2);
    any_int!(u32, u32, 4);
    any_int!(u64, u64, 8);
    any_int!(i64, i64, 8);
    any_int!(usize, usize, 8);

    #[cfg(kani)]
    pub fn bool() -> bool {
        kani::any()
    }
    #[cfg(not(kani))]
    pub fn bool() -> bool {
        replay::next::<1>()[0] != 0
    }
    #[cfg(kani)]
    pub fn f64() -> f64 {
        kani::any()
    }
    #[cfg(not(kani))]
    pub fn f64() -> f64 {
        f64::from_ne_bytes(replay::next::<8>())
    }

    /// Native: an assumption that does not hold means the replayed path is not the solver's path.
    pub fn assume(c: bool) {
        #[cfg(kani)]
        kani::assume(c);
        #[cfg(not(kani))]
        if !c {
            eprintln!("FOLO_VERIF_REPLAY: assumption violated (replay infeasible)");
            std::process::exit(3);
        }
    }

    /// A choice in `0..n`.
    pub fn below(n: u8) -> u8 {
        let x = u8();
        assume(x < n);
        x
    }
    pub fn below_usize(n: usize) -> usize {
        let x = usize();
        assume(x < n);
        x
    }
}

/// Vacuity witness: reachable-and-satisfiable is reported by Kani as SATISFIED; no-op natively.
#[allow(unused_macros)]
macro_rules! witness {
    ($cond:expr, $msg:literal) => {
        #[cfg(kani)]
        kani::cover!($cond, $msg);
    };
}
