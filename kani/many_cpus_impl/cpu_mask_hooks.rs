// Included into `many_cpus_impl::pal::linux::cpu_mask` under cfg(any(kani, folo_verif)) (hook H3).
// C11 (part): the affinity mask behaves as a set of processor ids independent of its width.
pub(crate) mod folo_verif_cpu_mask {
    use super::*;

    include!(concat!(env!("FOLO_VERIF_DIR"), "/kani/common/nd.rs"));
    include!(concat!(env!("FOLO_VERIF_DIR"), "/kani/common/harness_macro.rs"));

    /// `SmallVec::resize` as truncate / bounded push loop: the real one reserves `new_len - len`
    /// elements at once, a symbolic-size growth that CBMC cannot carry (same as `Vec::resize`,
    /// see kani/infinity_pool/harness.rs). At most 3 elements are appended.
    #[cfg(kani)]
    #[allow(dead_code)]
    fn smallvec_resize_model<A: ::smallvec::Array>(v: &mut SmallVec<A>, new_len: usize, value: A::Item)
    where
        A::Item: Clone,
    {
        let len = v.len();
        if new_len <= len {
            v.truncate(new_len);
        } else {
            assert!(new_len - len <= 3, "smallvec_resize_model bound");
            let mut k = len;
            while k < new_len {
                v.push(value.clone());
                k += 1;
            }
        }
    }

    fn bit_position_roundtrip() {
        let id = nd::u32();
        let p = BitPosition::of(id);
        assert!(p.offset < WORD_BITS, "offset inside the word");
        assert!(p.word == (id / WORD_BITS) as usize, "word index");
        let b = p.bit();
        assert!(b != 0 && b & (b - 1) == 0, "exactly one bit");
        assert!(b == (1 as c_ulong) << (id % WORD_BITS), "bit = id mod word width");
        assert!(p.processor_id() == id, "word/offset round-trips to the id for every u32");
        witness!(id == u32::MAX, "largest id");
        witness!(id == 63, "last bit of word 0");
        witness!(id == 64, "first bit of word 1");
    }

    /// Collects up to 3 ids from the iterator (the scenarios insert at most 2).
    fn ids_of(mask: &CpuMask) -> ([ProcessorId; 3], usize) {
        let mut out = [0; 3];
        let mut n = 0;
        let mut it = mask.processor_ids();
        while n < 3 {
            match it.next() {
                Some(id) => {
                    out[n] = id;
                    n += 1;
                }
                None => break,
            }
        }
        (out, n)
    }

    /// Enumeration of a one-word mask with a solver-chosen word holding at most two ids.
    fn enumerate_one_word() {
        let w = nd::u64();
        nd::assume(w.count_ones() <= 2);
        let mut mask = CpuMask::with_words(NonZero::new(1).unwrap());
        *mask.words.get_mut(0).unwrap() = w as c_ulong;
        let (ids, n) = ids_of(&mask);
        assert!(n == w.count_ones() as usize, "one id per set bit");
        if n >= 1 {
            assert!(ids[0] == w.trailing_zeros(), "lowest id first");
        }
        if n == 2 {
            assert!(ids[1] == 63 - w.leading_zeros() && ids[1] > ids[0], "ids ascending, each once");
        }
        witness!(n == 2 && ids[1] == 63, "bit 63");
    }

    fn eq_width_independent() {
        let mut m1 = CpuMask::with_words(NonZero::new(1).unwrap());
        let mut m2 = CpuMask::with_words(NonZero::new(2).unwrap());
        let a = nd::u32();
        let b = nd::u32();
        let hi = nd::u64(); // arbitrary contents of the wider mask's second word (set directly: a second
                            // insert into the same mask does not fit, see DESIGN.md C11)
        nd::assume(a < 64 && b < 64);
        assert!(m1 == m2, "empty masks of different width are equal");
        m1.insert(a);
        assert!(m1 != m2 && m2 != m1, "non-empty vs empty");
        m2.insert(b);
        *m2.words.get_mut(1).unwrap() = hi as c_ulong;
        let same_set = a == b && hi == 0;
        assert!((m1 == m2) == same_set, "equal iff same set, whatever the widths");
        assert!((m2 == m1) == same_set, "equality symmetric");
        assert!(m1.len_bytes() == 8 && m2.len_bytes() == 16, "insert inside the width never changes the width");
        // set semantics, observed at an arbitrary id q (also beyond the masks' widths)
        let q = nd::u32();
        if q < 256 {
            let bit = (1 as c_ulong) << (q % 64);
            assert!((m1.word((q / 64) as usize) & bit != 0) == (q == a), "m1: exactly the inserted id is a member");
            assert!((m2.word((q / 64) as usize) & bit != 0) == (q == b || (q >= 64 && q < 128 && (hi >> (q - 64)) & 1 == 1)), "m2: exactly its ids are members");
        }
        witness!(same_set, "same single id in both");
        witness!(b == a && hi != 0, "masks differ only in the word beyond the narrower mask");
        witness!(b != a && hi == 0, "masks differ only in the shared word");
    }

    /// `insert` as an inductive step: from an ARBITRARY prior content of a 1-word and of a 2-word mask,
    /// inserting one id inside the width adds exactly that bit and keeps every member already there
    /// (so sets built by any number of inserts are the union, whatever the insertion order), and never
    /// changes the width.
    fn insert_preserves_members() {
        let w0 = nd::u64();
        let w1 = nd::u64();
        let a = nd::u32();
        nd::assume(a < 128);
        let mut m2 = CpuMask::with_words(NonZero::new(2).unwrap());
        *m2.words.get_mut(0).unwrap() = w0 as c_ulong;
        *m2.words.get_mut(1).unwrap() = w1 as c_ulong;
        m2.insert(a);
        let (e0, e1) = if a < 64 { (w0 | (1_u64 << a), w1) } else { (w0, w1 | (1_u64 << (a - 64))) };
        assert!(m2.word(0) == e0 as c_ulong && m2.word(1) == e1 as c_ulong, "2-word mask: insert adds exactly one bit and keeps the others");
        assert!(m2.len_bytes() == 16, "2-word mask: width unchanged");
        if a < 64 {
            let mut m1 = CpuMask::with_words(NonZero::new(1).unwrap());
            *m1.words.get_mut(0).unwrap() = w0 as c_ulong;
            m1.insert(a);
            assert!(m1.word(0) == (w0 | (1_u64 << a)) as c_ulong && m1.len_bytes() == 8, "1-word mask: insert adds exactly one bit and keeps the others");
        }
        witness!(a >= 64 && w1 != 0 && (w1 >> (a - 64)) & 1 == 0, "new id in the last word of a non-empty 2-word mask");
        witness!(a < 64 && w0 != 0, "new id in the only word of a non-empty 1-word mask");
    }

    harnesses! {
        // @verif id=C11 tier=quick timeout=300 mem=8 expect=pass covers=3
        // @bounds BitPosition::{of,bit,processor_id} for EVERY u32 processor id
        fn c11_bit_position_roundtrip [unwind 2] { bit_position_roundtrip() }

        // @verif id=C11 tier=quick timeout=900 mem=12 expect=pass covers=1
        // @bounds CpuMask::processor_ids on a one-word mask whose word is solver-chosen with <= 2 bits set: ids ascending, one per bit
        fn c11_mask_enumerate_one_word [unwind 66] { enumerate_one_word() }

        // @verif id=C11 tier=quick timeout=900 mem=12 expect=pass covers=3
        // @bounds CpuMask: a 1-word mask with one solver-chosen id and a 2-word mask with one solver-chosen id plus an arbitrary second word: membership at an arbitrary id, equality iff same set, width unchanged
        #[cfg_attr(kani, kani::stub(SmallVec::resize, smallvec_resize_model))]
        fn c11_mask_eq_width_independent [unwind 4] { eq_width_independent() }

        // @verif id=C11 tier=quick timeout=900 mem=12 expect=pass covers=2
        // @bounds CpuMask::insert from an ARBITRARY prior content (1-word and 2-word masks, id inside the width): exactly one bit added, members kept, width unchanged
        #[cfg_attr(kani, kani::stub(SmallVec::resize, smallvec_resize_model))]
        fn c11_mask_insert_preserves_members [unwind 4] { insert_preserves_members() }

        // @verif id=C11 tier=quick timeout=900 mem=10 expect=fail
        // @bounds vacuity twin of c11_mask_eq_width_independent
        #[cfg_attr(kani, kani::stub(SmallVec::resize, smallvec_resize_model))]
        fn c11_twin_mask_eq_must_fail [unwind 4] {
            eq_width_independent();
            assert!(false, "vacuity twin: reachable end of scenario");
        }
    }
}
