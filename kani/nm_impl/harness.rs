// C16 — nm_impl: observation bag arithmetic, publication (push) and merge, single thread.
// Compiled as `nm_impl::folo_verif` through hook H2. One harness per function (DESIGN.md P14).
use std::rc::Rc;
use std::sync::Arc;

use crate::{Magnitude, MetricsPusher, ObservationBag, ObservationBagSnapshot, ObservationBagSync, Observations};

include!(concat!(env!("FOLO_VERIF_DIR"), "/kani/common/nd.rs"));
include!(concat!(env!("FOLO_VERIF_DIR"), "/kani/common/harness_macro.rs"));

const NB: usize = 66;
const fn mk() -> [Magnitude; NB] {
    let mut a = [0_i64; NB];
    let mut i = 0;
    while i < NB {
        a[i] = (i as i64) * 10 - 50;
        i += 1;
    }
    a
}
/// 66 fixed, strictly increasing inclusive upper bounds (-50, -40, ..., 600): more than 63 buckets,
/// so the dirty-bitmap overflow bit (index 63) is exercised.
static FOLO_VERIF_MAGS66: [Magnitude; NB] = mk();
/// Symbolic bounds for the small-bag harnesses (sentinel initial values, set by the harness).
static mut FOLO_VERIF_MAGS3: [Magnitude; 3] = [0x5EED_0000_0000_0011, 0x5EED_0000_0000_0012, 0x5EED_0000_0000_0013];

fn first_bucket(mags: &[Magnitude], m: Magnitude, p: usize) -> bool {
    // p is the first bucket whose inclusive upper bound is >= m (bounds strictly increasing)
    m <= mags[p] && (p == 0 || m > mags[p - 1])
}
fn dirty_bit(p: usize) -> u64 {
    1_u64 << (if p < 63 { p } else { 63 })
}

/// `ObservationBag::insert(m, c)` from an arbitrary prior state, observed at an arbitrary bucket p.
fn insert_step(mags: &'static [Magnitude], max_count: usize) {
    let n = mags.len();
    let bag = ObservationBag::new(mags);
    let (l0, s0, d0) = (nd::u64(), nd::i64(), nd::u64());
    bag.folo_verif_set(l0, s0, d0);
    let p = nd::usize();
    let v0 = nd::u64();
    if n > 0 {
        nd::assume(p < n);
        bag.folo_verif_set_bucket(p, v0);
    }
    let m = nd::i64();
    let c = nd::usize();
    nd::assume(c <= max_count);
    bag.insert(m, c);
    assert!(bag.count() == l0.wrapping_add(c as u64), "count advances by the batch size");
    assert!(bag.folo_verif_sum() == s0.wrapping_add(m.wrapping_mul(c as i64)), "sum advances by magnitude * batch size (wrapping)");
    if n > 0 {
        let lands = c > 0 && first_bucket(mags, m, p);
        let v1 = bag.folo_verif_bucket(p);
        assert!(v1 == if lands { v0.wrapping_add(c as u64) } else { v0 }, "lands in the first bucket with bound >= m, and only there");
        let d1 = bag.folo_verif_dirty();
        assert!(d1 & d0 == d0, "dirty bits are only added");
        assert!(!lands || d1 & dirty_bit(p) != 0, "a changed bucket is marked dirty (bit min(index, 63))");
        let valid = if n >= 64 { u64::MAX } else { (1_u64 << n) - 1 };
        assert!((d1 & !d0) & !valid == 0, "only dirty bits of existing buckets are ever set");
        let overflow = c > 0 && m > mags[n - 1];
        assert!(!(overflow || c == 0) || d1 == d0, "overflow-bucket observations and empty batches mark nothing");
        witness!(lands && p == 63, "bucket 63");
        witness!(lands && p == 65, "bucket 65 (shares the overflow dirty bit)");
        witness!(lands && p == 62, "bucket 62");
        witness!(overflow, "magnitude above every bound");
        witness!(lands && m == mags[p], "magnitude exactly on a bound");
    }
}

fn insert_step_symbolic_bounds(len: usize) {
    let b = [nd::i64(), nd::i64(), nd::i64()];
    nd::assume(b[0] < b[1] && b[1] < b[2]);
    unsafe {
        FOLO_VERIF_MAGS3 = b;
    }
    let arr: &'static [Magnitude; 3] = unsafe { &*(&raw const FOLO_VERIF_MAGS3) };
    let mags: &'static [Magnitude] = &arr[..len];
    insert_step(mags, usize::MAX);
}

/// Same for the atomic bag (used for pull-model events).
fn sync_insert_step() {
    let mags: &'static [Magnitude] = &FOLO_VERIF_MAGS66;
    let bag = ObservationBagSync::new(mags);
    let (l0, s0) = (nd::u64(), nd::i64());
    bag.folo_verif_set(l0, s0);
    let p = nd::usize();
    nd::assume(p < NB);
    let v0 = nd::u64();
    bag.folo_verif_set_bucket(p, v0);
    let m = nd::i64();
    let c = nd::usize();
    bag.insert(m, c);
    assert!(bag.folo_verif_count() == l0.wrapping_add(c as u64));
    assert!(bag.folo_verif_sum() == s0.wrapping_add(m.wrapping_mul(c as i64)));
    let lands = first_bucket(mags, m, p);
    assert!(bag.folo_verif_bucket(p) == if lands { v0.wrapping_add(c as u64) } else { v0 }, "sync insert: first bucket with bound >= m");
}

/// The publication invariant at bucket p: a clean bucket is already equal in the published bag.
struct PushState {
    local: Rc<ObservationBag>,
    global: Arc<ObservationBagSync>,
    p: usize,
}
fn arbitrary_push_state(mags: &'static [Magnitude], max_dirty: u32) -> PushState {
    let nbuckets = mags.len();
    let (local, global) = if nbuckets == 66 {
        (Rc::new(ObservationBag::folo_verif_new66(mags)), Arc::new(ObservationBagSync::folo_verif_new66(mags)))
    } else {
        (Rc::new(ObservationBag::new(mags)), Arc::new(ObservationBagSync::new(mags)))
    };
    let p = nd::usize();
    nd::assume(p < nbuckets);
    let (l, s, d) = (nd::u64(), nd::i64(), nd::u64());
    nd::assume(d.count_ones() <= max_dirty);
    // representation invariant of the dirty mask (insert only ever sets bit min(index, 63) of an
    // existing bucket - asserted by the insert harnesses)
    let valid = if nbuckets >= 64 { u64::MAX } else { (1_u64 << nbuckets) - 1 };
    nd::assume(d & !valid == 0);
    local.folo_verif_set(l, s, d);
    let lv = nd::u64();
    local.folo_verif_set_bucket(p, lv);
    let gv = nd::u64();
    global.folo_verif_set_bucket(p, gv);
    global.folo_verif_set(nd::u64(), nd::i64());
    // invariant: clean bucket => already published
    nd::assume(d & dirty_bit(p) != 0 || gv == lv);
    PushState { local, global, p }
}

fn copy_from_step(max_dirty: u32) {
    let st = arbitrary_push_state(&FOLO_VERIF_MAGS66, max_dirty);
    let (l, s, lv) = (st.local.count(), st.local.folo_verif_sum(), st.local.folo_verif_bucket(st.p));
    st.global.copy_from(&st.local);
    assert!(st.global.folo_verif_count() == l && st.global.folo_verif_sum() == s, "copy_from publishes count and sum");
    assert!(st.global.folo_verif_bucket(st.p) == lv, "copy_from: every bucket equals the local bag afterwards");
    assert!(st.local.folo_verif_dirty() == 0, "copy_from: dirty bits consumed");
    assert!(st.local.count() == l && st.local.folo_verif_bucket(st.p) == lv, "copy_from: local bag unchanged");
    witness!(st.p == 64, "bucket behind the overflow bit");
    witness!(st.p == 63, "bucket 63");
    witness!(st.p == 0, "bucket 0");
}

/// MetricsPusher::push with one registered pair, from an arbitrary state satisfying the
/// publication invariant (including "count unchanged since the last push => nothing to copy").
fn push_step() {
    let b = [nd::i64(), nd::i64(), nd::i64()];
    nd::assume(b[0] < b[1] && b[1] < b[2]);
    unsafe {
        FOLO_VERIF_MAGS3 = b;
    }
    let arr: &'static [Magnitude; 3] = unsafe { &*(&raw const FOLO_VERIF_MAGS3) };
    let st = arbitrary_push_state(&arr[..], 64);
    // A fresh registration starts with local = published = 0 and last_pushed_count = 0; an arbitrary
    // local state with count 0 but other contents is not reachable, so start from count != 0.
    nd::assume(st.local.count() != 0);
    // last_pushed_count is 0 for a fresh registration; make "already pushed at this count" reachable
    // by pushing once first (establishes last_pushed_count = count, global = local), then optionally
    // observing, then pushing again.
    let pusher = MetricsPusher::folo_verif_with_pair(Rc::clone(&st.local), Arc::clone(&st.global));
    pusher.push();
    let observe = nd::bool();
    if observe {
        let m = nd::i64();
        let c = nd::usize();
        // Documented edge outside the claim: a batch that wraps the local count back to the value
        // already pushed is mistaken for "no change".
        nd::assume(c <= (1 << 32) && st.local.count() <= u64::MAX - (1 << 33));
        st.local.insert(m, c);
    }
    let (l, s, lv) = (st.local.count(), st.local.folo_verif_sum(), st.local.folo_verif_bucket(st.p));
    pusher.push();
    assert!(st.global.folo_verif_count() == l && st.global.folo_verif_sum() == s, "after push: published count/sum = local");
    assert!(st.global.folo_verif_bucket(st.p) == lv, "after push: published bucket = local (skip heuristic never hides a change)");
    witness!(observe && st.p == 2, "observation between pushes, last bucket");
    witness!(!observe, "idle push (skipped)");
}

/// Two events on one pusher: whether or not the first one is idle, the second one's observations
/// are published by the same push (an idle sibling must not end the push early).
fn push_two_events() {
    let b = [nd::i64(), nd::i64(), nd::i64()];
    nd::assume(b[0] < b[1] && b[1] < b[2]);
    unsafe {
        FOLO_VERIF_MAGS3 = b;
    }
    let arr: &'static [Magnitude; 3] = unsafe { &*(&raw const FOLO_VERIF_MAGS3) };
    let mags: &'static [Magnitude] = &arr[..];
    let (l0, g0) = (Rc::new(ObservationBag::new(mags)), Arc::new(ObservationBagSync::new(mags)));
    let (l1, g1) = (Rc::new(ObservationBag::new(mags)), Arc::new(ObservationBagSync::new(mags)));
    let pusher = MetricsPusher::folo_verif_with_pair(Rc::clone(&l0), Arc::clone(&g0));
    pusher.folo_verif_add_pair(Rc::clone(&l1), Arc::clone(&g1));
    let first_active = nd::bool();
    if first_active {
        l0.insert(nd::i64(), 1);
    }
    let (m, c) = (nd::i64(), nd::usize());
    nd::assume(c >= 1 && c <= (1 << 32));
    l1.insert(m, c);
    pusher.push();
    let p = nd::usize();
    nd::assume(p < 3);
    assert!(g1.folo_verif_count() == l1.count() && g1.folo_verif_sum() == l1.folo_verif_sum() && g1.folo_verif_bucket(p) == l1.folo_verif_bucket(p),
        "second event published by the push, whether or not the first one was idle");
    assert!(g0.folo_verif_count() == l0.count() && g0.folo_verif_bucket(p) == l0.folo_verif_bucket(p), "first event published as well");
    witness!(!first_active, "first event idle");
    witness!(first_active, "both events active");
}

fn merge_step() {
    let mags: &'static [Magnitude] = &FOLO_VERIF_MAGS66;
    let a = ObservationBagSync::new(mags);
    let b = ObservationBagSync::new(mags);
    let p = nd::usize();
    nd::assume(p < NB);
    let (ac, asum, av) = (nd::u64(), nd::i64(), nd::u64());
    let (bc, bsum, bv) = (nd::u64(), nd::i64(), nd::u64());
    a.folo_verif_set(ac, asum);
    a.folo_verif_set_bucket(p, av);
    b.folo_verif_set(bc, bsum);
    b.folo_verif_set_bucket(p, bv);
    a.merge_from(&b);
    assert!(a.folo_verif_count() == ac.wrapping_add(bc) && a.folo_verif_sum() == asum.wrapping_add(bsum), "merge: count and sum add");
    assert!(a.folo_verif_bucket(p) == av.wrapping_add(bv), "merge: every bucket adds");
    assert!(b.folo_verif_count() == bc && b.folo_verif_bucket(p) == bv, "merge: source unchanged");
}

fn snapshot_merge_step() {
    let arr: &'static [Magnitude; 3] = unsafe { &*(&raw const FOLO_VERIF_MAGS3) };
    let mags: &'static [Magnitude] = &arr[..];
    let a0 = [nd::u64(), nd::u64(), nd::u64()];
    let b0 = [nd::u64(), nd::u64(), nd::u64()];
    let (ac, asum, bc, bsum) = (nd::u64(), nd::i64(), nd::u64(), nd::i64());
    let mut a = ObservationBagSnapshot { count: ac, sum: asum, bucket_magnitudes: mags, bucket_counts: Box::new(a0) };
    let b = ObservationBagSnapshot { count: bc, sum: bsum, bucket_magnitudes: mags, bucket_counts: Box::new(b0) };
    a.merge_from(&b);
    assert!(a.count == ac.wrapping_add(bc) && a.sum == asum.wrapping_add(bsum));
    assert!(a.bucket_counts[0] == a0[0].wrapping_add(b0[0]) && a.bucket_counts[1] == a0[1].wrapping_add(b0[1]) && a.bucket_counts[2] == a0[2].wrapping_add(b0[2]), "snapshot merge: bucket-wise sums");
    assert!(b.count == bc && b.bucket_counts[1] == b0[1]);
}

harnesses! {
    // @verif id=C16 tier=quick timeout=900 mem=10 expect=pass covers=5
    // @bounds ObservationBag::insert(m,c) on 66 fixed bounds from an ARBITRARY prior state (count, sum, dirty mask, probed bucket): every i64 magnitude, batch size <= 2^32; observed at an arbitrary bucket
    fn c16_insert_66_buckets [unwind 68] { insert_step(&FOLO_VERIF_MAGS66, 1 << 32) }

    // @verif id=C16 tier=quick timeout=600 mem=8 expect=pass witness=any covers=2
    // @bounds ObservationBag::insert(m,c) on 3 SYMBOLIC strictly increasing bounds, every i64 magnitude, every usize batch size
    fn c16_insert_3_symbolic_bounds [unwind 5] { insert_step_symbolic_bounds(3) }

    // @verif id=C16 tier=quick timeout=600 mem=8 expect=pass witness=any covers=1
    // @bounds ObservationBag::insert on 1 symbolic bound and on an empty bucket list
    fn c16_insert_1_and_0_bounds [unwind 5] { insert_step_symbolic_bounds(1); insert_step_symbolic_bounds(0) }

    // @verif id=C16 tier=quick timeout=900 mem=10 expect=pass
    // @bounds ObservationBagSync::insert(m,c) on 66 fixed bounds, arbitrary prior state, every magnitude and batch size
    fn c16_sync_insert_66_buckets [unwind 68] { sync_insert_step() }

    // @verif id=C16 tier=quick timeout=900 mem=10 expect=pass covers=3
    // @bounds ObservationBagSync::copy_from (66 buckets) from an arbitrary state satisfying the publication invariant (clean bucket => already equal); dirty mask with <= 4 bits set (any positions, incl. the overflow bit)
    fn c16_copy_from_66_buckets [unwind 8] { copy_from_step(4) }

    // @verif id=C16 tier=thorough timeout=3600 mem=30 expect=pass covers=3
    // @bounds ObservationBagSync::copy_from (66 buckets), dirty mask with <= 12 bits set
    fn c16_copy_from_66_buckets_12dirty [unwind 16] { copy_from_step(12) }

    // @verif id=C16 tier=quick timeout=1200 mem=12 expect=pass covers=2
    // @bounds MetricsPusher::push; [insert(m,c<=2^32)]; push with one registered pair (3 symbolic bounds) from an arbitrary invariant state: published = local, idle pushes skipped safely
    fn c16_push_skip_heuristic [unwind 6] { push_step() }

    // @verif id=C16 tier=quick timeout=900 mem=12 expect=pass covers=2
    // @bounds MetricsPusher::push with TWO registered events (3 symbolic bounds): the first idle or active (solver-chosen), the second with one batch: both published
    fn c16_push_two_events [unwind 6] { push_two_events() }

    // @verif id=C16 tier=quick timeout=900 mem=10 expect=pass
    // @bounds ObservationBagSync::merge_from (66 buckets), arbitrary counts, observed at an arbitrary bucket
    fn c16_merge_from_66_buckets [unwind 68] { merge_step() }

    // @verif id=C16 tier=quick timeout=600 mem=8 expect=pass
    // @bounds ObservationBagSnapshot::merge_from on 3 buckets, arbitrary contents
    fn c16_snapshot_merge [unwind 26] { snapshot_merge_step() }

    // @verif id=C16 tier=quick timeout=900 mem=10 expect=fail
    // @bounds vacuity twin of c16_copy_from_66_buckets
    fn c16_twin_copy_from_must_fail [unwind 8] {
        copy_from_step(4);
        assert!(false, "vacuity twin: reachable end of scenario");
    }
}
