// Included into `nm_impl::pusher` under cfg(any(kani, folo_verif)) (hook H2): a pusher with one
// registered (local, global) pair, bypassing the thread-local event registry.
impl MetricsPusher {
    pub(crate) fn folo_verif_with_pair(local: Rc<ObservationBag>, global: Arc<ObservationBagSync>) -> Self {
        let p = Self::new();
        p.push_registry.borrow_mut().push(LocalGlobalPair {
            local,
            global,
            last_pushed_count: Cell::new(0),
        });
        p
    }
    /// Registers a further (local, global) pair, in registration order.
    pub(crate) fn folo_verif_add_pair(&self, local: Rc<ObservationBag>, global: Arc<ObservationBagSync>) {
        self.push_registry.borrow_mut().push(LocalGlobalPair {
            local,
            global,
            last_pushed_count: Cell::new(0),
        });
    }
}
