// Included into `nm_impl::observations` under cfg(any(kani, folo_verif)) (hook H2): accessors to
// put a bag into an arbitrary state and to read it back without allocating a snapshot.
impl ObservationBag {
    pub(crate) fn folo_verif_set(&self, count: u64, sum: i64, dirty: u64) {
        self.count.set(count);
        self.sum.set(sum);
        self.dirty_buckets.set(dirty);
    }
    pub(crate) fn folo_verif_set_bucket(&self, i: usize, v: u64) {
        self.bucket_counts[i].set(v);
    }
    pub(crate) fn folo_verif_bucket(&self, i: usize) -> u64 {
        self.bucket_counts[i].get()
    }
    pub(crate) fn folo_verif_sum(&self) -> i64 {
        self.sum.get()
    }
    pub(crate) fn folo_verif_dirty(&self) -> u64 {
        self.dirty_buckets.get()
    }
}
impl ObservationBagSync {
    pub(crate) fn folo_verif_set(&self, count: u64, sum: i64) {
        self.count.store(count, SYNC_BAG_ACCESS_ORDERING);
        self.sum.store(sum, SYNC_BAG_ACCESS_ORDERING);
    }
    pub(crate) fn folo_verif_set_bucket(&self, i: usize, v: u64) {
        self.bucket_counts[i].store(v, SYNC_BAG_ACCESS_ORDERING);
    }
    pub(crate) fn folo_verif_bucket(&self, i: usize) -> u64 {
        self.bucket_counts[i].load(SYNC_BAG_ACCESS_ORDERING)
    }
    pub(crate) fn folo_verif_count(&self) -> u64 {
        self.count.load(SYNC_BAG_ACCESS_ORDERING)
    }
    pub(crate) fn folo_verif_sum(&self) -> i64 {
        self.sum.load(SYNC_BAG_ACCESS_ORDERING)
    }
}

// Loop-free constructors for 66-bucket bags (the real `new` collects from an iterator, which would
// force a 68-fold unwinding on every other loop of the harness as well).
impl ObservationBag {
    pub(crate) fn folo_verif_new66(bucket_magnitudes: &'static [Magnitude]) -> Self {
        assert!(bucket_magnitudes.len() == 66);
        Self {
            count: Cell::new(0),
            sum: Cell::new(0),
            bucket_counts: Box::new([const { Cell::new(0) }; 66]),
            bucket_magnitudes,
            dirty_buckets: Cell::new(0),
        }
    }
}
impl ObservationBagSync {
    pub(crate) fn folo_verif_new66(bucket_magnitudes: &'static [Magnitude]) -> Self {
        assert!(bucket_magnitudes.len() == 66);
        Self {
            count: AtomicU64::new(0),
            sum: AtomicI64::new(0),
            bucket_counts: Box::new([const { AtomicU64::new(0) }; 66]),
            bucket_magnitudes,
        }
    }
}
