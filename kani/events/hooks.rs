// Included into `events::folo_verif_hooks` under cfg(folo_verif) (hook H6): named yield points for
// NATIVE replay of schedules found by the mirproto model. A yield point is a no-op unless a closure
// has been installed for its name AND the current thread opted in (so unrelated threads never block).
use std::cell::Cell;
use std::collections::HashMap;
use std::sync::{Arc, Mutex, OnceLock};

type Hook = Arc<dyn Fn() + Send + Sync>;
static HOOKS: OnceLock<Mutex<HashMap<&'static str, Hook>>> = OnceLock::new();
thread_local! {
    static PARTICIPANT: Cell<bool> = const { Cell::new(false) };
}

pub fn install(name: &'static str, hook: Hook) {
    HOOKS.get_or_init(|| Mutex::new(HashMap::new())).lock().unwrap().insert(name, hook);
}
pub fn clear() {
    if let Some(m) = HOOKS.get() {
        m.lock().unwrap().clear();
    }
}
pub fn participate(on: bool) {
    PARTICIPANT.with(|p| p.set(on));
}
pub fn yield_point(name: &'static str) {
    if !PARTICIPANT.with(Cell::get) {
        return;
    }
    let hook = HOOKS.get().and_then(|m| m.lock().unwrap().get(name).cloned());
    if let Some(h) = hook {
        h();
    }
}
