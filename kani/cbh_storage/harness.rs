// C19 (part) — cbh_storage: keys that could escape the store root are rejected.
// Compiled as `cbh_storage::folo_verif`. Only the key validation is decided here; crash-point
// atomicity, byte-identical round trips and concurrent readers/writers (tokio::fs, flate2, the OS
// file system) cannot be encoded.
use crate::{is_plain_segment, validate_key};

include!(concat!(env!("FOLO_VERIF_DIR"), "/kani/common/nd.rs"));
include!(concat!(env!("FOLO_VERIF_DIR"), "/kani/common/harness_macro.rs"));

#[allow(dead_code)]
fn fmt_stub(_args: std::fmt::Arguments<'_>) -> String {
    String::new()
}

/// A segment is safe to append to a root iff it is non-empty and neither `.` nor `..`
/// (segments never contain '/': they come from `split('/')`).
fn segment_ok(seg: &[u8]) -> bool {
    !(seg.is_empty() || seg == b"." || seg == b"..")
}

/// Every string of exactly N bytes over the alphabet {a, ., /}: accepted iff every '/'-separated
/// segment is a plain one.
fn short_keys<const N: usize>() {
    let mut buf = [b'a'; N];
    let mut i = 0;
    while i < N {
        let c = nd::below(3);
        buf[i] = if c == 0 { b'a' } else if c == 1 { b'.' } else { b'/' };
        i += 1;
    }
    let key = std::str::from_utf8(&buf).unwrap();
    let accepted = validate_key(key).is_ok();
    // oracle: scan segments
    let mut ok = true;
    let mut start = 0;
    let mut j = 0;
    while j <= N {
        if j == N || buf[j] == b'/' {
            if !segment_ok(&buf[start..j]) {
                ok = false;
            }
            start = j + 1;
        }
        j += 1;
    }
    assert!(accepted == ok, "key accepted iff no segment is empty, '.' or '..'");
    witness!(!ok && buf[N - 1] == b'.' && buf[N - 2] == b'.', "trailing '..' segment");
    witness!(ok && N >= 3 && buf[1] == b'/', "multi-segment key accepted");
}

/// K two-byte segments, each 'aa', 'a.', '.a' or '..' (solver-chosen), joined by '/': a parent
/// reference is rejected at EVERY position, however deep.
fn deep_keys<const K: usize, const LEN: usize, const TWO_BITS: bool>() {
    let mut buf = [b'/'; LEN];
    let mut bad = false;
    let mut s = 0;
    while s < K {
        let c0 = nd::bool();
        let c1 = if TWO_BITS { nd::bool() } else { c0 };
        buf[3 * s] = if c0 { b'.' } else { b'a' };
        buf[3 * s + 1] = if c1 { b'.' } else { b'a' };
        if c0 && c1 {
            bad = true;
        }
        s += 1;
    }
    let key = std::str::from_utf8(&buf).unwrap();
    let accepted = validate_key(key).is_ok();
    assert!(accepted == !bad, "a '..' segment is rejected at every depth; everything else is accepted");
    witness!(bad && buf[3 * (K - 1)] == b'.' && buf[3 * (K - 1) + 1] == b'.', "'..' in the last segment");
}

harnesses! {
    // @verif id=C19 tier=quick timeout=1200 mem=16 expect=pass covers=2
    // @bounds validate_key on EVERY 4-byte string over the alphabet {a . /} vs the segment oracle
    #[cfg_attr(kani, kani::stub(std::fmt::format, fmt_stub))]
    fn c19_validate_key_4_bytes [unwind 8] { short_keys::<4>() }

    // @verif id=C19 tier=thorough timeout=3600 mem=30 expect=pass covers=2
    // @bounds validate_key on EVERY 6-byte string over the alphabet {a . /}
    #[cfg_attr(kani, kani::stub(std::fmt::format, fmt_stub))]
    fn c19_validate_key_6_bytes [unwind 10] { short_keys::<6>() }

    // @verif id=C19 tier=quick timeout=1800 mem=20 expect=pass covers=1
    // @bounds validate_key on 10 two-byte segments each solver-chosen from {aa, a., .a, ..}: '..' rejected at every depth
    #[cfg_attr(kani, kani::stub(std::fmt::format, fmt_stub))]
    fn c19_validate_key_10_segments [unwind 32] { deep_keys::<10, 29, true>() }

    // @verif id=C19 tier=quick timeout=1200 mem=16 expect=pass covers=1
    // @bounds validate_key on 9 two-byte segments each solver-chosen from {aa, ..}
    #[cfg_attr(kani, kani::stub(std::fmt::format, fmt_stub))]
    fn c19_validate_key_9_segments_1bit [unwind 30] { deep_keys::<9, 26, false>() }

    // @verif id=C19 tier=quick timeout=1200 mem=16 expect=pass
    // @bounds validate_key on EVERY 2-byte string over {a . /}
    #[cfg_attr(kani, kani::stub(std::fmt::format, fmt_stub))]
    fn c19_validate_key_2_bytes [unwind 6] { short_keys::<2>() }

    // @verif id=C19 tier=quick timeout=900 mem=12 expect=fail
    // @bounds vacuity twin of c19_validate_key_4_bytes
    #[cfg_attr(kani, kani::stub(std::fmt::format, fmt_stub))]
    fn c19_twin_validate_key_must_fail [unwind 8] {
        short_keys::<4>();
        assert!(false, "vacuity twin: reachable end of scenario");
    }
}
