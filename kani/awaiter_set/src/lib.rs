//! C08-K — the waiter list `awaiter_set::AwaiterSet` (an intrusive doubly linked list of pinned
//! awaiters) behaves as the FIFO-with-generations CONTRACT that the mirproto model of the reset
//! events uses in its place (lib/mirproto/encode.py, kinds SET_*). Public API only; release profile.
#![allow(static_mut_refs, dead_code, unused_unsafe, clippy::all)]

include!("../../common/nd.rs");
include!("../../common/harness_macro.rs");

use std::pin::Pin;
use std::task::{RawWaker, RawWakerVTable, Waker};

use awaiter_set::{Awaiter, AwaiterSet};

// waker bookkeeping (sentinel initial value: see kani/infinity_pool/harness.rs on the Kani static artefact)
static mut FOLO_VERIF_LIVE_WAKERS: i32 = 0x5EED_0A17;
unsafe fn c(d: *const ()) -> RawWaker {
    unsafe {
        FOLO_VERIF_LIVE_WAKERS += 1;
    }
    RawWaker::new(d, &VT)
}
unsafe fn w(_d: *const ()) {
    unsafe {
        FOLO_VERIF_LIVE_WAKERS -= 1;
    }
}
unsafe fn wr(_d: *const ()) {}
unsafe fn d(_d: *const ()) {
    unsafe {
        FOLO_VERIF_LIVE_WAKERS -= 1;
    }
}
static VT: RawWakerVTable = RawWakerVTable::new(c, w, wr, d);
fn wk(id: usize) -> Waker {
    unsafe {
        FOLO_VERIF_LIVE_WAKERS += 1;
        Waker::from_raw(RawWaker::new(id as *const (), &VT))
    }
}
fn id_of(w: &Waker) -> usize {
    w.data() as usize
}
fn live() -> i32 {
    unsafe { FOLO_VERIF_LIVE_WAKERS }
}
fn reset() {
    unsafe {
        FOLO_VERIF_LIVE_WAKERS = 0;
    }
}

/// Reference contract: FIFO of registered awaiters with a registration generation each.
#[derive(Clone, Copy)]
struct Ref {
    reg: [bool; 3],
    ord: [u8; 3],
    gen_: [u64; 3],
    wk: [usize; 3],
    notified: [bool; 3],
    seq: u8,
    setgen: u64,
}
impl Ref {
    fn new() -> Self {
        Ref { reg: [false; 3], ord: [0; 3], gen_: [0; 3], wk: [0; 3], notified: [false; 3], seq: 0, setgen: 1 }
    }
    fn head(&self) -> Option<usize> {
        let mut best: Option<usize> = None;
        let mut i = 0;
        while i < 3 {
            if self.reg[i] && best.map_or(true, |b| self.ord[i] < self.ord[b]) {
                best = Some(i);
            }
            i += 1;
        }
        best
    }
    fn register(&mut self, a: usize, w: usize) {
        if !self.reg[a] {
            self.reg[a] = true;
            self.ord[a] = self.seq;
            self.seq += 1;
            self.gen_[a] = self.setgen;
        }
        self.wk[a] = w;
    }
    fn unregister(&mut self, a: usize) {
        self.reg[a] = false;
    }
    fn notify(&mut self, prior_only: bool) -> Option<usize> {
        let h = self.head()?;
        if prior_only && self.gen_[h] >= self.setgen {
            return None;
        }
        self.reg[h] = false;
        self.notified[h] = true;
        Some(self.wk[h])
    }
    fn is_empty(&self) -> bool {
        !(self.reg[0] || self.reg[1] || self.reg[2])
    }
}

fn pin(a: &mut Awaiter) -> Pin<&mut Awaiter> {
    unsafe { Pin::new_unchecked(a) }
}

fn check_lifecycles(aw: &[Awaiter; 3], r: &Ref) {
    let mut i = 0;
    while i < 3 {
        assert!(aw[i].is_registered() == (r.reg[i] || r.notified[i]), "lifecycle: registered <=> waiting or notified");
        assert!(aw[i].is_notified() == r.notified[i], "lifecycle: notified exactly when the contract notified it");
        i += 1;
    }
}

/// register x3; unregister a solver-chosen one (or none); notify_one until empty: FIFO order, waker
/// identity, lifecycle bytes, waker clone/drop balance.
fn shape_fifo() {
    reset();
    let mut set = AwaiterSet::new();
    let mut r = Ref::new();
    let mut aw = [Awaiter::new(), Awaiter::new(), Awaiter::new()];
    assert!(set.is_empty());
    let mut i = 0;
    while i < 3 {
        unsafe { set.register(pin(&mut aw[i]), wk(i + 1)) };
        r.register(i, i + 1);
        i += 1;
    }
    check_lifecycles(&aw, &r);
    let which = nd::below(4) as usize;
    if which < 3 {
        unsafe { set.unregister(pin(&mut aw[which])) };
        r.unregister(which);
        assert!(!aw[which].is_registered(), "unregister: back to idle");
    }
    check_lifecycles(&aw, &r);
    let mut n = 0;
    while n < 3 {
        let got = set.notify_one();
        let exp = r.notify(false);
        assert!(got.as_ref().map(id_of) == exp, "notify_one: head of the FIFO, with the waker it registered");
        assert!(set.is_empty() == r.is_empty(), "is_empty agrees");
        drop(got);
        n += 1;
    }
    check_lifecycles(&aw, &r);
    // a notified awaiter hands its notification over exactly once
    let mut i = 0;
    while i < 3 {
        let t1 = aw[i].take_notification();
        let t2 = aw[i].take_notification();
        assert!(t1 == r.notified[i] && !t2, "take_notification: true exactly once per notification");
        assert!(!aw[i].is_registered(), "idle after the notification was taken / unregistered");
        i += 1;
    }
    assert!(live() == 0, "every waker dropped exactly once");
    witness!(which == 1, "middle element unlinked");
    witness!(which == 3, "nothing unregistered");
}

/// generations: register a0; [advance]; re-register a0 with a new waker; register a1; [advance];
/// notify_one_prior_generation x2; notify_one.
fn shape_generations() {
    reset();
    let mut set = AwaiterSet::new();
    let mut r = Ref::new();
    let mut aw = [Awaiter::new(), Awaiter::new(), Awaiter::new()];
    unsafe { set.register(pin(&mut aw[0]), wk(1)) };
    r.register(0, 1);
    if nd::bool() {
        set.advance_generation();
        r.setgen += 1;
    }
    unsafe { set.register(pin(&mut aw[0]), wk(2)) }; // re-registration: waker replaced, position and generation kept
    r.register(0, 2);
    unsafe { set.register(pin(&mut aw[1]), wk(3)) };
    r.register(1, 3);
    let adv2 = nd::bool();
    if adv2 {
        set.advance_generation();
        r.setgen += 1;
    }
    check_lifecycles(&aw, &r);
    let mut n = 0;
    while n < 2 {
        let got = set.notify_one_prior_generation();
        let exp = r.notify(true);
        assert!(got.as_ref().map(id_of) == exp, "notify_one_prior_generation: head only if registered before the last advance");
        drop(got);
        n += 1;
    }
    check_lifecycles(&aw, &r);
    let got = set.notify_one();
    let exp = r.notify(false);
    assert!(got.as_ref().map(id_of) == exp, "notify_one after the drain");
    drop(got);
    assert!(set.is_empty() == r.is_empty());
    // clean up whatever is still registered
    let mut i = 0;
    while i < 2 {
        if aw[i].is_registered() && !aw[i].is_notified() {
            unsafe { set.unregister(pin(&mut aw[i])) };
        }
        i += 1;
    }
    assert!(live() == 0, "every waker dropped exactly once (the replaced one too)");
    witness!(adv2 && exp.is_none(), "both drained by the prior-generation notifications");
    witness!(!adv2 && exp.is_some(), "new generation skipped by the drain");
}

harnesses! {
    // @verif id=C08 tier=quick timeout=900 mem=10 expect=pass covers=2
    // @bounds awaiter_set (release profile): 3 pinned awaiters registered, one solver-chosen unregistered (or none), notify_one x3, take_notification x2 each - results, lifecycle bytes and waker balance equal the FIFO contract
    fn c08k_awaiter_set_fifo [unwind 5] { shape_fifo() }

    // @verif id=C08 tier=quick timeout=900 mem=10 expect=pass covers=2
    // @bounds awaiter_set: re-registration with a new waker, solver-chosen advance_generation points, notify_one_prior_generation x2, notify_one - equal to the FIFO-with-generations contract
    fn c08k_awaiter_set_generations [unwind 5] { shape_generations() }

    // @verif id=C08 tier=quick timeout=900 mem=10 expect=fail
    // @bounds vacuity twin of c08k_awaiter_set_fifo
    fn c08k_twin_awaiter_set_fifo_must_fail [unwind 5] {
        shape_fifo();
        assert!(false, "vacuity twin: reachable end of scenario");
    }
}
