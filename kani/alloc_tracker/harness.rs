// C18 — alloc_tracker: the tracking allocator is transparent and exact (single thread).
// Compiled as `alloc_tracker::folo_verif` through hook H7 (include under cfg(any(kani, folo_verif))).
use std::alloc::{GlobalAlloc, Layout};
use std::any::Any;
#[allow(unused_imports)]
use std::panic::catch_unwind;
use std::sync::{Arc, Mutex};

use crate::allocator::{allocation_totals, get_or_init_thread_counters};
use crate::{Allocator, Operation, OperationMetrics};

include!(concat!(env!("FOLO_VERIF_DIR"), "/kani/common/nd.rs"));
include!(concat!(env!("FOLO_VERIF_DIR"), "/kani/common/harness_macro.rs"));

#[allow(dead_code)]
fn cu_stub<F: FnOnce() -> R + std::panic::UnwindSafe, R>(f: F) -> Result<R, Box<dyn Any + Send + 'static>> {
    Ok(f())
}

// Recording inner allocator. Statics start from sentinels (Kani static artefact, see
// kani/infinity_pool/harness.rs) and are reset by every harness.
static mut FOLO_VERIF_LAST: (u8, usize, usize, usize, usize) = (0xA7, 0x5EED_0001, 0x5EED_0002, 0x5EED_0003, 0x5EED_0004);
static mut FOLO_VERIF_RET: usize = 0x5EED_0005_0000_0001;
static mut FOLO_VERIF_CALLS: usize = 0x5EED_0006_0000_0001;

pub struct Rec;
unsafe impl GlobalAlloc for Rec {
    unsafe fn alloc(&self, l: Layout) -> *mut u8 {
        unsafe {
            FOLO_VERIF_LAST = (1, l.size(), l.align(), 0, 0);
            FOLO_VERIF_CALLS += 1;
            FOLO_VERIF_RET as *mut u8
        }
    }
    unsafe fn dealloc(&self, p: *mut u8, l: Layout) {
        unsafe {
            FOLO_VERIF_LAST = (2, l.size(), l.align(), p as usize, 0);
            FOLO_VERIF_CALLS += 1;
        }
    }
    unsafe fn alloc_zeroed(&self, l: Layout) -> *mut u8 {
        unsafe {
            FOLO_VERIF_LAST = (3, l.size(), l.align(), 0, 0);
            FOLO_VERIF_CALLS += 1;
            FOLO_VERIF_RET as *mut u8
        }
    }
    unsafe fn realloc(&self, p: *mut u8, l: Layout, n: usize) -> *mut u8 {
        unsafe {
            FOLO_VERIF_LAST = (4, l.size(), l.align(), p as usize, n);
            FOLO_VERIF_CALLS += 1;
            FOLO_VERIF_RET as *mut u8
        }
    }
}
fn reset() {
    unsafe {
        FOLO_VERIF_LAST = (0, 0, 0, 0, 0);
        FOLO_VERIF_RET = 0;
        FOLO_VERIF_CALLS = 0;
    }
}

/// One call of solver-chosen kind (1 alloc, 2 dealloc, 3 alloc_zeroed, 4 realloc, 0 none) with an
/// arbitrary layout / pointer / new size; checks pass-through; returns (tracked bytes, tracked calls).
fn one_call(a: &Allocator<Rec>, max_size: usize) -> (u64, u64) {
    let kind = nd::below(5);
    if kind == 0 {
        return (0, 0);
    }
    let size = nd::usize();
    let al = nd::below(8);
    nd::assume(size <= max_size);
    let l = Layout::from_size_align(size, 1_usize << al).unwrap();
    let ret = nd::usize();
    let arg_ptr = nd::usize();
    let n = nd::usize();
    nd::assume(n <= max_size);
    unsafe {
        FOLO_VERIF_RET = ret;
    }
    let calls0 = unsafe { FOLO_VERIF_CALLS };
    let got = unsafe {
        match kind {
            1 => a.alloc(l) as usize,
            2 => {
                a.dealloc(arg_ptr as *mut u8, l);
                ret
            }
            3 => a.alloc_zeroed(l) as usize,
            _ => a.realloc(arg_ptr as *mut u8, l, n) as usize,
        }
    };
    unsafe {
        assert!(FOLO_VERIF_CALLS == calls0 + 1, "exactly one call forwarded to the wrapped allocator");
        assert!(got == ret, "returns exactly what the wrapped allocator returned");
        assert!(FOLO_VERIF_LAST.0 == kind, "forwarded to the same entry point");
        assert!(FOLO_VERIF_LAST.1 == size && FOLO_VERIF_LAST.2 == (1_usize << al), "layout forwarded unchanged");
        if kind == 2 || kind == 4 {
            assert!(FOLO_VERIF_LAST.3 == arg_ptr, "pointer forwarded unchanged");
        }
        if kind == 4 {
            assert!(FOLO_VERIF_LAST.4 == n, "new size forwarded unchanged");
        }
    }
    match kind {
        1 | 3 => (size as u64, 1),
        4 => (n as u64, 1),
        _ => (0, 0),
    }
}

fn passthrough_and_count() {
    reset();
    let a = Allocator::new(Rec);
    let c = get_or_init_thread_counters();
    let (b0, n0) = (c.bytes(), c.count());
    let t0 = allocation_totals();
    let (bytes, calls) = one_call(&a, 1 << 40);
    let c1 = get_or_init_thread_counters();
    assert!(c1.bytes() - b0 == bytes, "thread counter: requested size (new size for realloc, nothing for free)");
    assert!(c1.count() - n0 == calls, "thread counter: one call per allocation");
    let t1 = allocation_totals();
    assert!(t1.bytes - t0.bytes == bytes && t1.count - t0.count == calls, "process totals advance by the same amount");
    witness!(calls == 1 && bytes > (1 << 39), "large request");
    witness!(calls == 0 && bytes == 0, "dealloc / no call");
}

fn new_operation() -> (Operation, Arc<Mutex<OperationMetrics>>) {
    let m = Arc::new(Mutex::new(OperationMetrics::default()));
    (Operation::new(String::new(), Arc::clone(&m)), m)
}

/// [call1;] [outer span: call2; [inner span: call3]; [call4]]; [call5] - thread or process spans.
/// `full` adds the calls before / after the spans and after the inner span.
fn span_shape(process: bool, full: bool) {
    reset();
    let a = Allocator::new(Rec);
    let (outer_op, outer_m) = new_operation();
    let (inner_op, inner_m) = new_operation();
    let max = 1 << 30;
    if full {
        let _ = one_call(&a, max);
    }
    let it_outer = nd::u64();
    let it_inner = nd::u64();
    nd::assume(it_outer <= (1 << 20) && it_inner <= (1 << 20));
    let (b2, c2, b3, c3);
    let (mut b4, mut c4) = (0, 0);
    if process {
        let outer = outer_op.measure_process().iterations(it_outer);
        (b2, c2) = one_call(&a, max);
        {
            let inner = inner_op.measure_process().iterations(it_inner);
            (b3, c3) = one_call(&a, max);
            drop(inner);
        }
        if full {
            (b4, c4) = one_call(&a, max);
        }
        drop(outer);
    } else {
        let outer = outer_op.measure_thread().iterations(it_outer);
        (b2, c2) = one_call(&a, max);
        {
            let inner = inner_op.measure_thread().iterations(it_inner);
            (b3, c3) = one_call(&a, max);
            drop(inner);
        }
        if full {
            (b4, c4) = one_call(&a, max);
        }
        drop(outer);
    }
    if full {
        let _ = one_call(&a, max);
    }
    let om = outer_m.lock().unwrap();
    let im = inner_m.lock().unwrap();
    assert!(im.total_bytes_allocated() == b3 && im.total_allocations_count() == c3, "inner span: exactly the calls inside it");
    assert!(im.total_iterations() == it_inner && im.span_count() == 1, "inner span: iterations recorded");
    assert!(om.total_bytes_allocated() == b2 + b3 + b4 && om.total_allocations_count() == c2 + c3 + c4, "outer span: calls inside it, including the nested span's");
    assert!(om.total_iterations() == it_outer && om.span_count() == 1, "outer span: iterations recorded");
    witness!(c2 + c3 == 2, "two tracked calls inside the outer span");
    witness!(c3 == 0 && c2 == 1, "untracked call (free) inside the inner span");
}

fn process_span_one() {
    reset();
    let a = Allocator::new(Rec);
    let (op, m) = new_operation();
    let it = nd::u64();
    nd::assume(it <= (1 << 20));
    let span = op.measure_process().iterations(it);
    let (b, c) = one_call(&a, 1 << 30);
    drop(span);
    let mm = m.lock().unwrap();
    assert!(mm.total_bytes_allocated() == b && mm.total_allocations_count() == c && mm.total_iterations() == it, "process span: exactly the call inside it");
}

/// Two consecutive spans on one operation + merge of two operations: totals are sums.
fn span_sum_and_merge() {
    reset();
    let a = Allocator::new(Rec);
    let (op, m) = new_operation();
    let max = 1 << 30;
    let s1 = op.measure_thread().iterations(1);
    let (b1, c1) = one_call(&a, max);
    drop(s1);
    let (_bx, _cx) = one_call(&a, max); // between spans: not counted
    let s2 = op.measure_thread().iterations(2);
    let (b2, c2) = one_call(&a, max);
    drop(s2);
    let mm = m.lock().unwrap();
    assert!(mm.total_bytes_allocated() == b1 + b2 && mm.total_allocations_count() == c1 + c2, "report = sum of its spans");
    assert!(mm.total_iterations() == 3 && mm.span_count() == 2);
    let mut other = OperationMetrics::default();
    let eb = nd::u64();
    let ec = nd::u64();
    nd::assume(eb <= (1 << 40) && ec <= (1 << 40));
    other.add_span(5, eb, ec);
    other.merge(&mm);
    assert!(other.total_bytes_allocated() == eb + b1 + b2 && other.total_allocations_count() == ec + c1 + c2 && other.total_iterations() == 8, "merge adds totals");
}

/// `OperationMetrics::merge` on two ARBITRARY operand states (built through the crate's own
/// `add_span`, iteration counts including 0): every total is the sum, in both argument orders.
fn merge_arbitrary() {
    let mut a = OperationMetrics::default();
    let mut b = OperationMetrics::default();
    let (ia, ba, ca) = (nd::u64(), nd::u64(), nd::u64());
    let (ib, bb, cb) = (nd::u64(), nd::u64(), nd::u64());
    let lim = 1_u64 << 40;
    nd::assume(ia <= 4 && ib <= 4 && ba <= lim && bb <= lim && ca <= lim && cb <= lim);
    let with_a = nd::bool();
    if with_a {
        a.add_span(ia, ba, ca);
    }
    b.add_span(ib, bb, cb);
    let (ea_i, ea_b, ea_c, ea_s) = if with_a { (ia, ba, ca, 1) } else { (0, 0, 0, 0) };
    witness!(with_a && ib == 0 && bb > 0, "merge of a zero-iteration span into a non-empty operation");
    witness!(!with_a && ib > 0, "merge into an empty operation");
    let mut ab = a.clone();
    ab.merge(&b);
    assert!(ab.total_iterations() == ea_i + ib && ab.total_bytes_allocated() == ea_b + bb && ab.total_allocations_count() == ea_c + cb && ab.span_count() == ea_s + 1,
        "merge(a, b): iterations, bytes, allocation count and span count are the sums");
    let mut ba_ = b.clone();
    ba_.merge(&a);
    assert!(ba_.total_iterations() == ab.total_iterations() && ba_.total_bytes_allocated() == ab.total_bytes_allocated()
        && ba_.total_allocations_count() == ab.total_allocations_count() && ba_.span_count() == ab.span_count(),
        "merge is independent of the argument order");
}

harnesses! {
    // @verif id=C18 tier=quick timeout=600 mem=8 expect=pass covers=2
    // @bounds Allocator<Recording>::{alloc,alloc_zeroed,realloc,dealloc}: ONE call of solver-chosen kind, every size < 2^40, alignment 2^0..2^7, arbitrary pointer / new size; thread counters + process totals
    #[cfg_attr(kani, kani::stub(catch_unwind, cu_stub))]
    fn c18_passthrough_one_call [unwind 4] { passthrough_and_count() }

    // @verif id=C18 tier=quick timeout=900 mem=12 expect=pass covers=2
    // @bounds ThreadSpan: [outer: call; [inner: call]] - two solver-chosen calls (kind, layout < 2^30), nested spans on two operations, symbolic iteration counts
    #[cfg_attr(kani, kani::stub(catch_unwind, cu_stub))]
    fn c18_thread_span_nested [unwind 4] { span_shape(false, false) }

    // @verif id=C18 tier=thorough timeout=3600 mem=30 expect=pass covers=2
    // @bounds ProcessSpan: same shape, process-wide totals (one thread registered)
    #[cfg_attr(kani, kani::stub(catch_unwind, cu_stub))]
    fn c18_process_span_nested [unwind 4] { span_shape(true, false) }

    // @verif id=C18 tier=thorough timeout=3600 mem=30 expect=pass covers=2
    // @bounds ThreadSpan: call; [outer: call; [inner: call]; call]; call - five solver-chosen calls
    #[cfg_attr(kani, kani::stub(catch_unwind, cu_stub))]
    fn c18_thread_span_nested_5calls [unwind 4] { span_shape(false, true) }

    // @verif id=C18 tier=quick timeout=900 mem=12 expect=pass
    // @bounds ProcessSpan around one solver-chosen call: process totals delta = that call
    #[cfg_attr(kani, kani::stub(catch_unwind, cu_stub))]
    fn c18_process_span_one_call [unwind 4] { process_span_one() }

    // @verif id=C18 tier=quick timeout=900 mem=12 expect=pass
    // @bounds two consecutive spans on one operation with an uncounted call between them; OperationMetrics::merge with arbitrary other totals
    #[cfg_attr(kani, kani::stub(catch_unwind, cu_stub))]
    fn c18_span_sum_and_merge [unwind 4] { span_sum_and_merge() }

    // @verif id=C18 tier=quick timeout=900 mem=12 expect=pass covers=2
    // @bounds OperationMetrics::merge of two arbitrary operands (0/1 span and 1 span; iterations 0..4, bytes / counts <= 2^40), both argument orders
    fn c18_merge_arbitrary [unwind 6] { merge_arbitrary() }

    // @verif id=C18 tier=quick timeout=600 mem=8 expect=fail
    // @bounds vacuity twin of c18_passthrough_one_call
    #[cfg_attr(kani, kani::stub(catch_unwind, cu_stub))]
    fn c18_twin_passthrough_must_fail [unwind 4] {
        passthrough_and_count();
        assert!(false, "vacuity twin: reachable end of scenario");
    }
}
