//! Native replay of a Kani counterexample (choices from `FOLO_VERIF_REPLAY`).
#[cfg(not(kani))]
fn main() {
    let name = std::env::args().nth(1).expect("usage: replay <harness>");
    for (n, f) in alloc_tracker::folo_verif::ALL {
        if *n == name {
            f();
            println!("replay of {name}: ran to completion");
            return;
        }
    }
    eprintln!("unknown harness {name}");
    std::process::exit(4);
}
#[cfg(kani)]
fn main() {}
