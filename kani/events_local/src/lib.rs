//! C08 — single-threaded reset events (`LocalAutoResetEvent`, `LocalManualResetEvent`): with one
//! thread every history is sequential, so linearizability is agreement with the sequential
//! specification. Scenario shapes over two wait futures with solver-chosen operations, compared with
//! a reference model (flag + FIFO of registered waiters); waker identity, wake-ups and clone/drop
//! balance included. Public API only; release profile (debug builds randomise the waiter pick).
#![allow(static_mut_refs, dead_code, unused_unsafe, clippy::all)]

include!("../../common/nd.rs");
include!("../../common/harness_macro.rs");

use std::future::Future;
use std::pin::Pin;
use std::task::{Context, Poll, RawWaker, RawWakerVTable, Waker};

use events::{LocalAutoResetEvent, LocalManualResetEvent};

// sentinel initial values: see kani/infinity_pool/harness.rs on the Kani static artefact
static mut FOLO_VERIF_LIVE: i32 = 0x5EED_0B01;
static mut FOLO_VERIF_WOKEN: [u8; 8] = [0xD1, 0xD2, 0xD3, 0xD4, 0xD5, 0xD6, 0xD7, 0xD8];
unsafe fn c(d: *const ()) -> RawWaker {
    unsafe {
        FOLO_VERIF_LIVE += 1;
    }
    RawWaker::new(d, &VT)
}
unsafe fn w(d: *const ()) {
    unsafe {
        FOLO_VERIF_WOKEN[d as usize] += 1;
        FOLO_VERIF_LIVE -= 1;
    }
}
unsafe fn wr(d: *const ()) {
    unsafe {
        FOLO_VERIF_WOKEN[d as usize] += 1;
    }
}
unsafe fn dr(_d: *const ()) {
    unsafe {
        FOLO_VERIF_LIVE -= 1;
    }
}
static VT: RawWakerVTable = RawWakerVTable::new(c, w, wr, dr);
/// The caller's own waker: not counted (the event's clones are).
fn caller(id: usize) -> std::mem::ManuallyDrop<Waker> {
    std::mem::ManuallyDrop::new(unsafe { Waker::from_raw(RawWaker::new(id as *const (), &VT)) })
}
fn reset() {
    unsafe {
        FOLO_VERIF_LIVE = 0;
        FOLO_VERIF_WOKEN = [0; 8];
    }
}
fn woken(id: usize) -> u8 {
    unsafe { FOLO_VERIF_WOKEN[id] }
}
fn live() -> i32 {
    unsafe { FOLO_VERIF_LIVE }
}
fn poll<F: Future<Output = ()>>(f: &mut Pin<Box<F>>, id: usize) -> bool {
    let wk = caller(id);
    f.as_mut().poll(&mut Context::from_waker(&wk)).is_ready()
}

/// Sequential specification with the waiter queue made explicit.
struct Spec {
    auto: bool,
    flag: bool,
    queue: [usize; 2], // registered waiter ids in registration order
    qlen: usize,
    notified: [bool; 2],
    waker: [usize; 2],
    exp_woken: [u8; 8],
}
impl Spec {
    fn new(auto: bool) -> Self {
        Spec { auto, flag: false, queue: [9, 9], qlen: 0, notified: [false; 2], waker: [0; 2], exp_woken: [0; 8] }
    }
    fn in_queue(&self, a: usize) -> bool {
        (self.qlen > 0 && self.queue[0] == a) || (self.qlen > 1 && self.queue[1] == a)
    }
    fn pop_head(&mut self) -> Option<usize> {
        if self.qlen == 0 {
            return None;
        }
        let h = self.queue[0];
        self.queue[0] = self.queue[1];
        self.qlen -= 1;
        Some(h)
    }
    fn remove(&mut self, a: usize) {
        if self.qlen > 0 && self.queue[0] == a {
            self.queue[0] = self.queue[1];
            self.qlen -= 1;
        } else if self.qlen > 1 && self.queue[1] == a {
            self.qlen -= 1;
        }
    }
    fn notify_head(&mut self) -> bool {
        match self.pop_head() {
            Some(a) => {
                self.notified[a] = true;
                self.exp_woken[self.waker[a]] += 1;
                true
            }
            None => false,
        }
    }
    fn set(&mut self) {
        if self.auto {
            if self.flag {
                return;
            }
            if !self.notify_head() {
                self.flag = true;
            }
        } else {
            if self.flag {
                return;
            }
            self.flag = true;
            while self.notify_head() {}
        }
    }
    fn reset(&mut self) {
        self.flag = false;
    }
    fn try_wait(&mut self) -> bool {
        let f = self.flag;
        if self.auto && f {
            self.flag = false;
        }
        f
    }
    fn poll(&mut self, a: usize, w: usize) -> bool {
        if self.auto {
            if self.notified[a] {
                self.notified[a] = false;
                return true;
            }
            if self.flag {
                self.flag = false;
                return true;
            }
        } else {
            if self.flag {
                // a notification that was not taken yet is simply consumed with the completion
                self.notified[a] = false;
                return true;
            }
            if self.notified[a] {
                self.notified[a] = false;
                return true;
            }
        }
        if !self.in_queue(a) {
            self.queue[self.qlen] = a;
            self.qlen += 1;
        }
        self.waker[a] = w;
        false
    }
    fn drop_wait(&mut self, a: usize) {
        if self.in_queue(a) {
            self.remove(a);
        } else if self.notified[a] {
            self.notified[a] = false;
            if self.auto {
                // a cancelled notified wait passes the signal on
                if !self.notify_head() {
                    self.flag = true;
                }
            }
        }
    }
}

macro_rules! shape {
    ($name:ident, $Event:ty, $auto:expr) => {
        /// [poll w0]? [poll w1]? set [reset]? [set]? (drop w0 | poll w0 | -) poll w1 try_wait try_wait, drop all.
        fn $name() {
            reset();
            let ev = <$Event>::boxed();
            let mut spec = Spec::new($auto);
            let mut f0 = Some(Box::pin(ev.wait()));
            let mut f1 = Some(Box::pin(ev.wait()));
            let mut done = [false; 2];
            if nd::bool() {
                let r = poll(f0.as_mut().unwrap(), 1);
                assert!(r == spec.poll(0, 1), "first poll of w0");
                done[0] = r;
            }
            if nd::bool() {
                let r = poll(f1.as_mut().unwrap(), 2);
                assert!(r == spec.poll(1, 2), "first poll of w1");
                done[1] = r;
            }
            ev.set();
            spec.set();
            let mid = nd::below(3);
            if mid == 1 {
                ev.set();
                spec.set();
            } else if mid == 2 && !$auto {
                reset_event(&ev);
                spec.reset();
            }
            let a0 = nd::below(3);
            if a0 == 0 {
                drop(f0.take());
                if !done[0] {
                    spec.drop_wait(0);
                }
                done[0] = true;
            } else if a0 == 1 && !done[0] {
                let r = poll(f0.as_mut().unwrap(), 3);
                assert!(r == spec.poll(0, 3), "re-poll of w0 with a new waker");
                done[0] = r;
            }
            if !done[1] {
                let r = poll(f1.as_mut().unwrap(), 4);
                assert!(r == spec.poll(1, 4), "poll of w1 after the set");
                done[1] = r;
            }
            let t1 = ev.try_wait();
            assert!(t1 == spec.try_wait(), "try_wait agrees with the specification");
            let t2 = ev.try_wait();
            assert!(t2 == spec.try_wait(), "second try_wait");
            let mut i = 1;
            while i <= 4 {
                assert!(woken(i) == spec.exp_woken[i], "each waker invoked exactly as often as the specification notifies it");
                i += 1;
            }
            drop(f0.take());
            drop(f1.take());
            drop(ev);
            assert!(live() == 0, "every waker the event cloned was dropped exactly once");
            witness!(spec.exp_woken[1] == 1 && spec.exp_woken[2] == 0, "signal went to the first registered waiter");
            witness!(t1, "signal still stored at the end");
            witness!(a0 == 0 && spec.exp_woken[2] >= 1, "cancellation forwarded / second waiter released");
        }
    };
}

trait ResetCapable {
    fn do_reset(&self);
}
impl ResetCapable for LocalAutoResetEvent {
    fn do_reset(&self) {}
}
impl ResetCapable for LocalManualResetEvent {
    fn do_reset(&self) {
        self.reset();
    }
}
fn reset_event<E: ResetCapable>(e: &E) {
    e.do_reset();
}

shape!(shape_auto, LocalAutoResetEvent, true);
shape!(shape_manual, LocalManualResetEvent, false);

harnesses! {
    // @verif id=C08 tier=quick timeout=1800 mem=16 expect=pass witness=any covers=2
    // @bounds LocalAutoResetEvent (boxed), two wait futures: [poll w0]? [poll w1]? set [set]? (drop w0 | re-poll w0 | -) poll w1, try_wait x2 - all solver-chosen; results, wake-ups and waker balance vs the sequential specification
    fn c08_local_auto_two_waiters [unwind 6] { shape_auto() }

    // @verif id=C08 tier=quick timeout=1800 mem=16 expect=pass witness=any covers=2
    // @bounds LocalManualResetEvent (boxed), same shape with an optional reset after the set
    fn c08_local_manual_two_waiters [unwind 6] { shape_manual() }
}
