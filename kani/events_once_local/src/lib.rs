//! C07 — single-threaded one-shot event under re-entrant waker callbacks.
//!
//! Out-of-crate harnesses over the public API of `events_once` (`LocalEvent::boxed`,
//! `LocalEvent::placed`, `LocalEventPool::rent`). Every waker callback (clone / wake /
//! wake_by_ref / drop) performs a solver-chosen endpoint operation on the very event that invoked
//! it (bounded nesting depth). One harness = one top-level scenario shape; see DESIGN.md §4 C07.
#![allow(static_mut_refs, dead_code, unused_unsafe, clippy::all)]

include!("../../common/nd.rs");

use std::future::Future;
use std::pin::Pin;
use std::task::{Context, Poll, RawWaker, RawWakerVTable, Waker};

/// Ghost state shared by all scenario shapes (one harness runs at a time).
pub mod g {
    pub static mut P_CREATED: u8 = 0;
    pub static mut P_DROPS: u8 = 0;
    pub static mut DELIVERED: u8 = 0;
    pub static mut SEND_STARTED: bool = false;
    pub static mut SEND_DONE: bool = false;
    pub static mut SDROP_STARTED: bool = false;
    pub static mut SDROP_DONE: bool = false;
    /// Waker id (1..=3) passed to the receiver's most recent poll if that poll returned Pending
    /// and the receiver has neither been polled again, consumed nor dropped since; else 0.
    pub static mut LAST_PENDING: u8 = 0;
    /// `W_WAKES[LAST_PENDING]` at the start of that poll.
    pub static mut PENDING_BASE: u8 = 0;
    pub static mut W_LIVE: [i8; 4] = [0; 4];
    pub static mut W_WAKES: [u8; 4] = [0; 4];
    pub static mut DEPTH: u8 = 0;
    pub static mut MAX_DEPTH: u8 = 1;
    pub static mut CB_ENABLED: bool = true;
    pub static mut REENTERED: u8 = 0;
    /// Which callback kinds performed a non-trivial action (bit 0 clone, 1 wake, 2 wake_by_ref, 3 drop).
    pub static mut CB_KINDS: u8 = 0;
}

pub const SENT: u8 = 7;

pub struct P(pub u8);
impl Drop for P {
    fn drop(&mut self) {
        unsafe {
            g::P_DROPS += 1;
        }
    }
}

/// The wake obligation of C05/C07: evaluated whenever a send or sender-drop completes, and once
/// more at the end of the scenario (covers completions nested inside a poll).
fn check_wake_obligation() {
    unsafe {
        if g::LAST_PENDING != 0 {
            assert!(
                g::W_WAKES[g::LAST_PENDING as usize] > g::PENDING_BASE,
                "pending receiver was not woken by completed send / sender drop"
            );
        }
    }
}

macro_rules! storage_suite {
    ($m:ident, $S:ty, $R:ty) => {
        pub mod $m {
            use super::*;

            pub static mut SENDER: Option<$S> = None;
            pub static mut RECEIVER: Option<$R> = None;

            pub fn install(s: $S, r: $R) {
                unsafe {
                    SENDER = Some(s);
                    RECEIVER = Some(r);
                }
            }
            fn take_sender() -> Option<$S> {
                unsafe { (*(&raw mut SENDER)).take() }
            }
            fn take_receiver() -> Option<$R> {
                unsafe { (*(&raw mut RECEIVER)).take() }
            }
            fn put_receiver(r: $R) {
                unsafe {
                    assert!((*(&raw const RECEIVER)).is_none());
                    RECEIVER = Some(r);
                }
            }

            // ----- waker with re-entrant callbacks -------------------------------------------
            fn callback_action(kind: u8) {
                unsafe {
                    if !g::CB_ENABLED || g::DEPTH >= g::MAX_DEPTH {
                        return;
                    }
                    g::DEPTH += 1;
                    let a = nd::below(6);
                    let did = match a {
                        0 => false,
                        1 => op_send(),
                        2 => op_drop_sender(),
                        3 => op_poll(3),
                        4 => op_drop_receiver(),
                        _ => op_into_value(),
                    };
                    if did {
                        g::REENTERED += 1;
                        g::CB_KINDS |= 1 << kind;
                    }
                    g::DEPTH -= 1;
                }
            }
            unsafe fn w_clone(d: *const ()) -> RawWaker {
                unsafe {
                    g::W_LIVE[d as usize] += 1;
                }
                callback_action(0);
                RawWaker::new(d, &VT)
            }
            unsafe fn w_wake(d: *const ()) {
                unsafe {
                    g::W_WAKES[d as usize] += 1;
                    g::W_LIVE[d as usize] -= 1;
                }
                callback_action(1);
            }
            unsafe fn w_wake_ref(d: *const ()) {
                unsafe {
                    g::W_WAKES[d as usize] += 1;
                }
                callback_action(2);
            }
            unsafe fn w_drop(d: *const ()) {
                unsafe {
                    g::W_LIVE[d as usize] -= 1;
                }
                callback_action(3);
            }
            static VT: RawWakerVTable = RawWakerVTable::new(w_clone, w_wake, w_wake_ref, w_drop);

            fn mk_waker(id: u8) -> Waker {
                unsafe {
                    g::W_LIVE[id as usize] += 1;
                    Waker::from_raw(RawWaker::new(id as usize as *const (), &VT))
                }
            }
            /// Drops a harness-owned waker without treating that drop as a callback site.
            fn drop_own_waker(w: Waker) {
                unsafe {
                    let saved = g::CB_ENABLED;
                    g::CB_ENABLED = false;
                    drop(w);
                    g::CB_ENABLED = saved;
                }
            }

            // ----- endpoint operations (no-ops when the endpoint is unavailable) --------------
            pub fn op_send() -> bool {
                let Some(s) = take_sender() else { return false };
                unsafe {
                    g::SEND_STARTED = true;
                    g::P_CREATED += 1;
                }
                s.send(P(SENT));
                unsafe {
                    g::SEND_DONE = true;
                }
                check_wake_obligation();
                true
            }
            pub fn op_drop_sender() -> bool {
                let Some(s) = take_sender() else { return false };
                unsafe {
                    g::SDROP_STARTED = true;
                }
                drop(s);
                unsafe {
                    g::SDROP_DONE = true;
                }
                check_wake_obligation();
                true
            }
            pub fn op_drop_receiver() -> bool {
                let Some(r) = take_receiver() else { return false };
                unsafe {
                    g::LAST_PENDING = 0;
                }
                drop(r);
                true
            }
            pub fn op_is_ready() -> bool {
                let Some(r) = take_receiver() else { return false };
                let (pre_started, pre_done) =
                    unsafe { (g::SEND_STARTED || g::SDROP_STARTED, g::SEND_DONE || g::SDROP_DONE) };
                let ready = r.is_ready();
                if ready {
                    assert!(pre_started, "is_ready() true before any send or sender drop");
                } else {
                    assert!(!pre_done, "is_ready() false after a completed send / sender drop");
                }
                put_receiver(r);
                true
            }
            pub fn op_into_value() -> bool {
                let Some(r) = take_receiver() else { return false };
                let pre_done = unsafe { g::SEND_DONE || g::SDROP_DONE };
                match r.into_value() {
                    Ok(p) => unsafe {
                        assert!(g::SEND_STARTED, "value without a send");
                        assert!(p.0 == SENT, "wrong value");
                        g::DELIVERED += 1;
                        g::LAST_PENDING = 0;
                        drop(p);
                    },
                    Err(events_once::IntoValueError::Pending(r)) => {
                        assert!(!pre_done, "into_value pending after a completed send / sender drop");
                        put_receiver(r);
                    }
                    Err(events_once::IntoValueError::Disconnected) => unsafe {
                        assert!(g::SDROP_STARTED && !g::SEND_STARTED, "disconnect without sender drop");
                        g::LAST_PENDING = 0;
                    },
                }
                true
            }
            pub fn op_poll(wid: u8) -> bool {
                let Some(mut r) = take_receiver() else { return false };
                let w = mk_waker(wid);
                let (pre_done, base) = unsafe {
                    g::LAST_PENDING = 0;
                    (g::SEND_DONE || g::SDROP_DONE, g::W_WAKES[wid as usize])
                };
                let res = {
                    let mut cx = Context::from_waker(&w);
                    Pin::new(&mut r).poll(&mut cx)
                };
                match res {
                    Poll::Ready(Ok(p)) => unsafe {
                        assert!(g::SEND_STARTED, "value without a send");
                        assert!(p.0 == SENT, "wrong value");
                        g::DELIVERED += 1;
                        drop(p);
                        drop(r);
                    },
                    Poll::Ready(Err(_)) => unsafe {
                        assert!(g::SDROP_STARTED && !g::SEND_STARTED, "disconnect without sender drop");
                        drop(r);
                    },
                    Poll::Pending => unsafe {
                        assert!(!pre_done, "poll pending after a completed send / sender drop");
                        g::LAST_PENDING = wid;
                        g::PENDING_BASE = base;
                        put_receiver(r);
                    },
                }
                drop_own_waker(w);
                true
            }

            /// Common epilogue: the wake obligation at quiescence, then drop whatever is left (in a
            /// solver-chosen order, callbacks still live), then the accounting assertions.
            pub fn finish() {
                unsafe {
                    if g::SEND_DONE || g::SDROP_DONE {
                        check_wake_obligation();
                    }
                    if nd::bool() {
                        op_drop_sender();
                        op_drop_receiver();
                    } else {
                        op_drop_receiver();
                        op_drop_sender();
                    }
                    assert!((*(&raw const SENDER)).is_none() && (*(&raw const RECEIVER)).is_none());
                    assert!(g::DELIVERED <= 1, "payload delivered twice");
                    assert!(g::P_DROPS == g::P_CREATED, "payload dropped != created (leak or double drop)");
                    assert!(g::W_LIVE[1] == 0 && g::W_LIVE[2] == 0 && g::W_LIVE[3] == 0, "waker clone/drop imbalance");
                    if g::DELIVERED == 1 {
                        assert!(g::SEND_STARTED);
                    }
                }
            }

            // ----- top-level scenario shapes ---------------------------------------------------
            fn send_or_sdrop() {
                if nd::bool() {
                    op_send();
                } else {
                    op_drop_sender();
                }
            }
            /// poll(w1); (send | drop sender)
            pub fn shape_poll_complete() {
                op_poll(1);
                send_or_sdrop();
                witness!(unsafe { g::REENTERED } >= 1, "a callback re-entered the event");
                witness!(unsafe { g::W_WAKES[1] } >= 1, "registered waker woken");
            }
            /// poll(w1); poll(w2); (send | drop sender)
            pub fn shape_repoll_complete() {
                op_poll(1);
                op_poll(2);
                send_or_sdrop();
                witness!(unsafe { g::REENTERED } >= 1, "a callback re-entered the event");
                witness!(unsafe { g::W_WAKES[2] } >= 1, "second waker woken");
                witness!(unsafe { g::CB_KINDS & 8 } != 0, "drop callback re-entered");
            }
            /// poll(w1); (drop receiver | into_value); (send | drop sender)
            pub fn shape_poll_abandon_complete() {
                op_poll(1);
                if nd::bool() {
                    op_drop_receiver();
                } else {
                    op_into_value();
                }
                send_or_sdrop();
                witness!(unsafe { g::REENTERED } >= 1, "a callback re-entered the event");
                witness!(unsafe { g::CB_KINDS & 8 } != 0, "drop callback re-entered");
            }
            /// (send | drop sender); (poll | into_value | is_ready, poll)
            pub fn shape_complete_then_receive() {
                send_or_sdrop();
                match nd::below(3) {
                    0 => {
                        op_poll(1);
                    }
                    1 => {
                        op_into_value();
                    }
                    _ => {
                        op_is_ready();
                        op_poll(1);
                    }
                }
                witness!(unsafe { g::DELIVERED } == 1, "value delivered");
            }
            /// is_ready; poll(w1); (send | drop sender); poll(w1)
            pub fn shape_ready_poll_complete_poll() {
                op_is_ready();
                op_poll(1);
                send_or_sdrop();
                op_poll(1);
                witness!(unsafe { g::DELIVERED } == 1, "value delivered");
                witness!(unsafe { g::REENTERED } >= 1, "a callback re-entered the event");
            }
            /// poll(w1); poll(w2); poll(w1); drop receiver; (send | drop sender)
            pub fn shape_triple_poll_abandon() {
                op_poll(1);
                op_poll(2);
                op_poll(1);
                op_drop_receiver();
                send_or_sdrop();
                witness!(unsafe { g::REENTERED } >= 1, "a callback re-entered the event");
            }
        }
    };
}

storage_suite!(boxed, events_once::BoxedLocalSender<P>, events_once::BoxedLocalReceiver<P>);
storage_suite!(embedded, events_once::RawLocalSender<P>, events_once::RawLocalReceiver<P>);
storage_suite!(pooled, events_once::PooledLocalSender<P>, events_once::PooledLocalReceiver<P>);

fn with_boxed(depth: u8, shape: fn()) {
    unsafe {
        g::MAX_DEPTH = depth;
    }
    let (s, r) = events_once::LocalEvent::<P>::boxed();
    boxed::install(s, r);
    shape();
    boxed::finish();
}
fn with_embedded(depth: u8, shape: fn()) {
    unsafe {
        g::MAX_DEPTH = depth;
    }
    let mut place = Box::pin(events_once::EmbeddedLocalEvent::<P>::new());
    // SAFETY: `place` outlives both endpoints (they are consumed by `finish()` below) and is pinned.
    let (s, r) = unsafe { events_once::LocalEvent::<P>::placed(place.as_mut()) };
    embedded::install(s, r);
    shape();
    embedded::finish();
    drop(place);
}
fn with_pooled(depth: u8, shape: fn()) {
    unsafe {
        g::MAX_DEPTH = depth;
    }
    let pool = events_once::LocalEventPool::<P>::new();
    let (s, r) = pool.rent();
    assert!(pool.len() == 1);
    pooled::install(s, r);
    shape();
    pooled::finish();
    assert!(pool.len() == 0, "event not returned to the pool exactly once");
    assert!(pool.is_empty());
    std::mem::forget(pool);
}

/// Declares the harnesses: a `#[kani::proof]` under Kani, a plain function natively (replay).
macro_rules! harnesses {
    ($( $(#[$attr:meta])* fn $name:ident [unwind $u:literal] $body:block )*) => {
        $(
            $(#[$attr])*
            #[cfg_attr(kani, kani::proof)]
            #[cfg_attr(kani, kani::unwind($u))]
            pub fn $name() $body
        )*
        pub const ALL: &[(&str, fn())] = &[ $( (stringify!($name), $name as fn()) ),* ];
    };
}

harnesses! {
    // @verif id=C07 tier=quick timeout=600 mem=10 expect=pass
    // @bounds boxed storage; shape poll(w1);(send|drop sender); every waker callback performs one of 6 solver-chosen endpoint operations; nesting depth 1
    fn c07_boxed_poll_complete [unwind 4] { with_boxed(1, boxed::shape_poll_complete) }

    // @verif id=C07 tier=quick timeout=600 mem=10 expect=pass
    // @bounds boxed; poll(w1);poll(w2);(send|drop sender); depth 1
    fn c07_boxed_repoll_complete [unwind 4] { with_boxed(1, boxed::shape_repoll_complete) }

    // @verif id=C07 tier=quick timeout=600 mem=10 expect=pass
    // @bounds boxed; poll(w1);(drop receiver|into_value);(send|drop sender); depth 1
    fn c07_boxed_poll_abandon_complete [unwind 4] { with_boxed(1, boxed::shape_poll_abandon_complete) }

    // @verif id=C07 tier=quick timeout=600 mem=10 expect=pass
    // @bounds boxed; (send|drop sender);(poll|into_value|is_ready,poll); depth 1
    fn c07_boxed_complete_then_receive [unwind 4] { with_boxed(1, boxed::shape_complete_then_receive) }

    // @verif id=C07 tier=quick timeout=600 mem=10 expect=pass
    // @bounds boxed; is_ready;poll(w1);(send|drop sender);poll(w1); depth 1
    fn c07_boxed_ready_poll_complete_poll [unwind 4] { with_boxed(1, boxed::shape_ready_poll_complete_poll) }

    // @verif id=C07 tier=thorough timeout=7200 mem=24 expect=pass
    // @bounds boxed; poll(w1);poll(w2);poll(w1);drop receiver;(send|drop sender); depth 1
    fn c07_boxed_triple_poll_abandon [unwind 4] { with_boxed(1, boxed::shape_triple_poll_abandon) }

    // @verif id=C07 tier=thorough timeout=7200 mem=24 expect=pass
    // @bounds boxed; poll(w1);(send|drop sender); nesting depth 2
    fn c07_boxed_poll_complete_depth2 [unwind 4] { with_boxed(2, boxed::shape_poll_complete) }

    // @verif id=C07 tier=thorough timeout=7200 mem=24 expect=pass
    // @bounds boxed; poll(w1);poll(w2);(send|drop sender); nesting depth 2
    fn c07_boxed_repoll_complete_depth2 [unwind 4] { with_boxed(2, boxed::shape_repoll_complete) }

    // @verif id=C07 tier=quick timeout=600 mem=10 expect=pass
    // @bounds embedded (placed) storage; poll(w1);(send|drop sender); depth 1
    fn c07_embedded_poll_complete [unwind 4] { with_embedded(1, embedded::shape_poll_complete) }

    // @verif id=C07 tier=quick timeout=600 mem=10 expect=pass
    // @bounds embedded; poll(w1);poll(w2);(send|drop sender); depth 1
    fn c07_embedded_repoll_complete [unwind 4] { with_embedded(1, embedded::shape_repoll_complete) }

    // @verif id=C07 tier=thorough timeout=7200 mem=24 expect=pass
    // @bounds embedded; poll(w1);(drop receiver|into_value);(send|drop sender); depth 1
    fn c07_embedded_poll_abandon_complete [unwind 4] { with_embedded(1, embedded::shape_poll_abandon_complete) }

    // @verif id=C07 tier=thorough timeout=7200 mem=24 expect=pass
    // @bounds embedded; (send|drop sender);(poll|into_value|is_ready,poll); depth 1
    fn c07_embedded_complete_then_receive [unwind 4] { with_embedded(1, embedded::shape_complete_then_receive) }

    // @verif id=C07 tier=reference timeout=7200 mem=24 expect=pass
    // @bounds NOT REGISTERED (kept for reference): pooled (LocalEventPool) storage; poll(w1);(send|drop sender); depth 1; pool.len()==0 at the end - no verdict within 100 min / 24 GB
    fn c07_pooled_poll_complete [unwind 4] { with_pooled(1, pooled::shape_poll_complete) }

    // @verif id=C07 tier=reference timeout=7200 mem=24 expect=pass
    // @bounds NOT REGISTERED (kept for reference): pooled; (send|drop sender);(poll|into_value|is_ready,poll); depth 1 - CBMC ran out of memory after 66 min at 24 GB
    fn c07_pooled_complete_then_receive [unwind 4] { with_pooled(1, pooled::shape_complete_then_receive) }

    // @verif id=C07 tier=quick timeout=600 mem=10 expect=fail
    // @bounds vacuity twin of c07_boxed_poll_complete: ends in assert!(false), must be reported FAILED
    fn c07_twin_boxed_poll_complete_must_fail [unwind 4] {
        with_boxed(1, boxed::shape_poll_complete);
        assert!(false, "vacuity twin: reachable end of scenario");
    }
}
