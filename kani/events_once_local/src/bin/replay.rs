//! Native replay of a Kani counterexample: runs the same scenario function with the recorded
//! choices (`FOLO_VERIF_REPLAY`), so a violation is only reported if the real build shows it.
#[cfg(not(kani))]
fn main() {
    let name = std::env::args().nth(1).expect("usage: replay <harness>");
    for (n, f) in folo_verif_events_once_local::ALL {
        if *n == name {
            f();
            println!("replay of {name}: ran to completion");
            return;
        }
    }
    eprintln!("unknown harness {name}");
    std::process::exit(4);
}
#[cfg(kani)]
fn main() {}
