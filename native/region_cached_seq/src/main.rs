//! usage: folo_verif_region_cached_seq <warm|cold> <ops>   ops = comma list of `s` (set_global(next value)) | `r` (read)
//! The i-th write stores the value i (the initial value is 0), so the value a read returns is the
//! generation the model predicts as long as generations are handed out 1, 2, 3, ... in write order.
//! `warm`: the region has been read once before the script starts (regional copy of the initial value present).
use linked::InstancePerThread;
use region_cached::RegionCached;

fn main() {
    let mode = std::env::args().nth(1).expect("mode");
    let ops = std::env::args().nth(2).unwrap_or_default();
    let global = InstancePerThread::new(RegionCached::new(0_u64));
    let local = global.acquire();
    if mode == "warm" {
        let _ = local.with_cached(|v| *v);
    }
    let mut next = 0_u64;
    let mut reads = Vec::new();
    for op in ops.split(',').filter(|s| !s.is_empty()) {
        match op {
            "s" => {
                next += 1;
                local.set_global(next);
            }
            "r" => reads.push(local.with_cached(|v| *v)),
            other => panic!("unknown op {other}"),
        }
    }
    println!("{{\"reads\": {:?}}}", reads);
}
