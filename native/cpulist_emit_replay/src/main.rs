//! Replays a solver assignment of the C11 emit check against the real `cpulist` crate:
//! emits the run `start ..= start + len - 1` (plus optional extra ids) through the public API,
//! parses the text back and compares. Exit 0 = property holds for this input, 101 = panic,
//! 1 = round trip differs.
use std::process::ExitCode;

fn main() -> ExitCode {
    let args: Vec<u32> = std::env::args()
        .skip(1)
        .map(|a| a.parse().expect("u32 argument"))
        .collect();
    let (start, len) = (args[0], args[1]);
    let mut ids: Vec<u32> = Vec::new();
    for i in 0..len {
        ids.push(start.checked_add(i).expect("replay input must describe a run of valid u32 ids"));
    }
    ids.extend_from_slice(&args[2..]);
    let text = cpulist::emit(ids.iter().copied());
    let back = cpulist::parse(&text).expect("emitted list must parse");
    let mut expect = ids.clone();
    expect.sort_unstable();
    expect.dedup();
    println!("{{\"text\":\"{text}\",\"ids\":{},\"parsed\":{}}}", expect.len(), back.len());
    if back == expect {
        ExitCode::SUCCESS
    } else {
        eprintln!("round trip differs: emitted {text:?}, expected {expect:?}, parsed {back:?}");
        ExitCode::from(1)
    }
}
