//! Replays a solver assignment of the C11 emit check against the real `cpulist` crate:
//! emits the run `start ..= start + len - 1` (plus optional extra ids) through the public API,
//! parses the text back and compares. Exit 0 = property holds for this input, 101 = panic,
//! 1 = round trip differs.
use std::process::ExitCode;

/// `parse <text> err` or `parse <text> <start> <end> <stride>`: the public `cpulist::parse` on one
/// range text must give an error resp. exactly the progression start, start+stride, .. <= end.
fn parse_mode(args: &[String]) -> ExitCode {
    let text = &args[1];
    let got = cpulist::parse(text);
    if args[2] == "err" {
        return match got {
            Err(_) => ExitCode::SUCCESS,
            Ok(v) => {
                eprintln!("parse({text:?}) returned {} ids, expected an error", v.len());
                ExitCode::from(1)
            }
        };
    }
    let (start, end, stride): (u64, u64, u64) = (args[2].parse().unwrap(), args[3].parse().unwrap(), args[4].parse().unwrap());
    let mut expect = Vec::new();
    let mut x = start;
    while x <= end {
        expect.push(u32::try_from(x).expect("u32"));
        x += stride;
    }
    match got {
        Ok(v) if v == expect => ExitCode::SUCCESS,
        Ok(v) => {
            eprintln!("parse({text:?}) returned {v:?}, expected {expect:?}");
            ExitCode::from(1)
        }
        Err(e) => {
            eprintln!("parse({text:?}) failed ({e}), expected {expect:?}");
            ExitCode::from(1)
        }
    }
}

fn main() -> ExitCode {
    let raw: Vec<String> = std::env::args().skip(1).collect();
    if raw.first().map(String::as_str) == Some("parse") {
        return parse_mode(&raw);
    }
    let args: Vec<u32> = std::env::args()
        .skip(1)
        .map(|a| a.parse().expect("u32 argument"))
        .collect();
    let (start, len) = (args[0], args[1]);
    let mut ids: Vec<u32> = Vec::new();
    for i in 0..len {
        ids.push(start.checked_add(i).expect("replay input must describe a run of valid u32 ids"));
    }
    ids.extend_from_slice(&args[2..]);
    let text = cpulist::emit(ids.iter().copied());
    let back = cpulist::parse(&text).expect("emitted list must parse");
    let mut expect = ids.clone();
    expect.sort_unstable();
    expect.dedup();
    println!("{{\"text\":\"{text}\",\"ids\":{},\"parsed\":{}}}", expect.len(), back.len());
    if back == expect {
        ExitCode::SUCCESS
    } else {
        eprintln!("round trip differs: emitted {text:?}, expected {expect:?}, parsed {back:?}");
        ExitCode::from(1)
    }
}
