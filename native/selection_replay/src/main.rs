//! Replays a solver assignment of the C09 selection-count check on the real `many_cpus` crate:
//! builds fake hardware whose memory regions have the given sizes, asks the processor set builder
//! for `n` processors under the given region policy and checks what C09 states: exactly `n`
//! distinct processors of the source set, or nothing.
//!
//! usage: selection_replay <policy> <n> <region size>...   (policy: any | prefer_same | prefer_same_one_region |
//! require_same | prefer_different | require_different). Exit 0 = as stated, 1 = violated.
use std::collections::HashSet;
use std::num::NonZero;
use std::process::ExitCode;

use many_cpus::fake::{HardwareBuilder, ProcessorBuilder};
use many_cpus::{EfficiencyClass, SystemHardware};

fn main() -> ExitCode {
    let args: Vec<String> = std::env::args().skip(1).collect();
    let policy = args[0].as_str();
    let n: usize = args[1].parse().expect("n");
    let sizes: Vec<u32> = args[2..].iter().map(|a| a.parse().expect("size")).collect();

    let mut builder = HardwareBuilder::new();
    let mut id = 0_u32;
    for (region, size) in sizes.iter().enumerate() {
        for _ in 0..*size {
            builder = builder.processor(
                ProcessorBuilder::new()
                    .id(id)
                    .memory_region(u32::try_from(region).expect("few regions"))
                    .efficiency_class(EfficiencyClass::Performance),
            );
            id += 1;
        }
    }
    let total = id as usize;
    // quota modes: `quota_take <n> <limit> <sizes..>` and `quota_take_all <ignored n> <limit> <sizes..>`
    if policy == "quota_take" || policy == "quota_take_all" {
        let limit = sizes[0] as usize;
        let mut builder = HardwareBuilder::new().max_processor_time(limit as f64 + 0.5);
        let mut id = 0_u32;
        for (region, size) in sizes[1..].iter().enumerate() {
            for _ in 0..*size {
                builder = builder.processor(
                    ProcessorBuilder::new()
                        .id(id)
                        .memory_region(u32::try_from(region).expect("few regions"))
                        .efficiency_class(EfficiencyClass::Performance),
                );
                id += 1;
            }
        }
        let total = id as usize;
        // `processors()` is already cut to the quota; start from every processor so that the builder's own
        // quota handling is what is exercised
        let hw = SystemHardware::fake(builder);
        let limit = limit.max(1);
        let mut bad = None;
        if policy == "quota_take" {
            let got = hw.all_processors().to_builder().enforce_resource_quota().take(NonZero::new(n).expect("n > 0"));
            match got {
                None if n <= limit && n <= total => bad = Some(format!("take({n}) returned nothing although the quota allows {limit} and {total} candidates exist")),
                Some(set) if n > limit => bad = Some(format!("take({n}) returned {} processors although the quota allows only {limit}", set.len())),
                Some(set) if set.len() != n => bad = Some(format!("take({n}) returned {} processors", set.len())),
                _ => {}
            }
        } else {
            for which in 0..5 {
                let b = hw.all_processors().to_builder().enforce_resource_quota();
                let b = match which {
                    0 => b,
                    1 => b.prefer_same_memory_region(),
                    2 => b.same_memory_region(),
                    3 => b.prefer_different_memory_regions(),
                    _ => b.different_memory_regions(),
                };
                if let Some(set) = b.take_all() {
                    eprintln!("take_all policy #{which}: {} processors (quota limit {limit}, {total} candidates)", set.len());
                    if set.len() > limit {
                        bad = Some(format!("take_all (policy #{which}) returned {} processors although the quota allows only {limit}", set.len()));
                    }
                    if which == 0 && set.len() != total.min(limit) {
                        bad = Some(format!("take_all returned {} processors, expected min({total}, {limit})", set.len()));
                    }
                }
            }
        }
        return match bad {
            None => {
                println!("{{\"ok\":true}}");
                ExitCode::SUCCESS
            }
            Some(w) => {
                eprintln!("C09 violated ({policy}, n {n}, limit {limit}, region sizes {:?}): {w}", &sizes[1..]);
                ExitCode::from(1)
            }
        };
    }
    let hw = SystemHardware::fake(builder);

    let mut worst = None;
    // the selection is randomised: repeat so that every region order is seen
    for _ in 0..64 {
        let b = hw.processors().to_builder();
        let b = match policy {
            "any" => b,
            "prefer_same" | "prefer_same_one_region" => b.prefer_same_memory_region(),
            "require_same" => b.same_memory_region(),
            "prefer_different" => b.prefer_different_memory_regions(),
            "require_different" => b.different_memory_regions(),
            other => panic!("unknown policy {other}"),
        };
        let got = b.take(NonZero::new(n).expect("n > 0"));
        match got {
            None => {
                if policy == "any" || policy == "prefer_same" || policy == "prefer_same_one_region" || policy == "prefer_different" {
                    if total >= n {
                        worst = Some(format!("returned nothing although {total} >= {n} candidates exist"));
                    }
                }
            }
            Some(set) => {
                let ids: HashSet<u32> = set.processors().iter().map(|p| p.id()).collect();
                if set.len() != n || ids.len() != n {
                    worst = Some(format!("asked for {n}, got {} processors ({} distinct)", set.len(), ids.len()));
                }
                if policy == "prefer_same_one_region" && sizes.iter().any(|s| *s as usize >= n) {
                    let regions: HashSet<u32> = set.processors().iter().map(|p| p.memory_region_id()).collect();
                    if regions.len() != 1 {
                        worst = Some(format!("a single region could hold all {n}, but the set spans {} regions", regions.len()));
                    }
                }
            }
        }
        if worst.is_some() {
            break;
        }
    }
    match worst {
        None => {
            println!("{{\"ok\":true}}");
            ExitCode::SUCCESS
        }
        Some(w) => {
            println!("{{\"ok\":false,\"what\":\"{w}\"}}");
            eprintln!("C09 violated: policy {policy}, n {n}, region sizes {sizes:?}: {w}");
            ExitCode::from(1)
        }
    }
}
