//! One thread writes a fresh value and immediately reads it back (nobody else ever writes); other
//! threads only read. The property says the writer observes its own write. A reader that loaded
//! the previous latest value, was delayed, and installs it as the regional copy *after* the
//! writer's invalidation makes the writer's own read return the overwritten value.
//! The payload's Clone widens the window a little (a few spins) - it never blocks.
//! Exit code 1 on the first own-write miss, 0 if none was seen within the time budget.
use std::sync::atomic::{AtomicBool, Ordering};
use std::sync::Arc;
use std::thread;
use std::time::{Duration, Instant};

use linked::InstancePerThread;
use region_cached::RegionCached;

struct Val(u64);
impl Clone for Val {
    fn clone(&self) -> Self {
        for _ in 0..200 {
            std::hint::spin_loop();
        }
        Val(self.0)
    }
}

fn main() {
    let secs: u64 = std::env::args().nth(1).and_then(|s| s.parse().ok()).unwrap_or(20);
    let global = InstancePerThread::new(RegionCached::new(Val(0)));
    let stop = Arc::new(AtomicBool::new(false));
    let mut readers = Vec::new();
    for _ in 0..6 {
        let h = global.clone();
        let stop = Arc::clone(&stop);
        readers.push(thread::spawn(move || {
            let local = h.acquire();
            let mut sink = 0_u64;
            while !stop.load(Ordering::Relaxed) {
                sink = sink.wrapping_add(local.with_cached(|v| v.0));
            }
            sink
        }));
    }
    let local = global.acquire();
    let start = Instant::now();
    let mut i = 0_u64;
    let mut miss = None;
    while start.elapsed() < Duration::from_secs(secs) {
        i += 1;
        local.set_global(Val(i));
        let got = local.with_cached(|v| v.0);
        if got != i {
            miss = Some((i, got));
            break;
        }
    }
    stop.store(true, Ordering::Relaxed);
    for r in readers {
        let _ = r.join();
    }
    match miss {
        Some((wrote, got)) => {
            println!("OWN WRITE NOT OBSERVED: wrote {wrote}, the immediately following read on the same thread returned {got} (only this thread writes); after {i} rounds");
            std::process::exit(1);
        }
        None => println!("no miss in {i} rounds ({secs}s)"),
    }
}
