//! Replays, on the real crate, the schedule
//!   reader: load regional (None) ; load latest (generation 0) ; CAS None -> Initializing ; [clone blocks]
//!   writer: set_global(1) = bump generation ; store latest ; invalidate regions (clear: Initializing -> None)
//!   reader: [clone resumes] store Ready(generation 0) ; generations match ; done
//! and then checks what a *later* read returns once every write and read has finished.
//! Exit code 0: the later read returns the last value written; 1: it returns the overwritten value.
use std::sync::atomic::{AtomicBool, Ordering};
use std::sync::{Arc, Condvar, Mutex};
use std::thread;
use std::time::Duration;

use linked::InstancePerThread;
use region_cached::RegionCached;

#[derive(Default)]
struct Gate {
    armed: AtomicBool,
    state: Mutex<(bool, bool)>, // (reader is inside clone, reader may continue)
    cv: Condvar,
}

struct Val {
    v: u32,
    gate: Arc<Gate>,
}

impl Clone for Val {
    fn clone(&self) -> Self {
        if self.gate.armed.swap(false, Ordering::SeqCst) {
            let mut st = self.gate.state.lock().unwrap();
            st.0 = true;
            self.gate.cv.notify_all();
            while !st.1 {
                st = self.gate.cv.wait(st).unwrap();
            }
        }
        Self { v: self.v, gate: Arc::clone(&self.gate) }
    }
}

fn main() {
    let gate = Arc::new(Gate::default());
    let global = InstancePerThread::new(RegionCached::new(Val { v: 0, gate: Arc::clone(&gate) }));

    gate.armed.store(true, Ordering::SeqCst);
    let reader_handle = global.clone();
    let reader = thread::spawn(move || {
        let local = reader_handle.acquire();
        local.with_cached(|x| x.v)
    });

    // wait until the reader sits inside Clone (= inside initialize, after the Initializing marker)
    {
        let mut st = gate.state.lock().unwrap();
        let mut waited = 0;
        while !st.0 {
            let (g, _) = gate.cv.wait_timeout(st, Duration::from_millis(100)).unwrap();
            st = g;
            waited += 1;
            if waited > 100 {
                eprintln!("replay infeasible: the reader never entered Clone (not the expected code path)");
                std::process::exit(3);
            }
        }
    }

    let local = global.acquire();
    local.set_global(Val { v: 1, gate: Arc::clone(&gate) }); // runs to completion while the reader is parked

    {
        let mut st = gate.state.lock().unwrap();
        st.1 = true;
        gate.cv.notify_all();
    }
    let first = reader.join().unwrap();

    // everything has returned; no write or read is in flight any more
    let mut later = 0;
    for _ in 0..1000 {
        later = local.with_cached(|x| x.v);
    }
    let other = thread::spawn({
        let h = global.clone();
        move || h.acquire().with_cached(|x| x.v)
    })
    .join()
    .unwrap();
    println!("reader's own read: {first}; later reads (writer thread, fresh thread): {later}, {other}; last value written: 1");
    if later != 1 || other != 1 {
        println!("STALE: a value that had already been overwritten is served after all writes returned");
        std::process::exit(1);
    }
}
