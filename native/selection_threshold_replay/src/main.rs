//! Native confirmation for the C20 mirsym check `selection_threshold`: if the selection scorer asks
//! the exactness oracle about the wrong split sizes, some split is scored with a different
//! Mann-Whitney p-value than `mann_whitney_u_pvalue` reports for that very split. Sweeps step
//! series of 10..=60 points (ties included) and compares bit for bit at the selected split.
//! Exit 0 = every selected split is scored like MannWhitneyU, 1 = a mismatch exists.
use std::num::NonZero;
use std::process::ExitCode;

use cbh_stats::{SelectionCalibration, mann_whitney_u_pvalue, selection_adjusted_change_point};

fn main() -> ExitCode {
    let mut checked = 0_u32;
    for n in 10_usize..=60 {
        for seed in 0_u64..5 {
            for step_at in [n / 2, n / 3, (2 * n) / 3, n / 2 + 1] {
                let mut state = seed.wrapping_mul(7919).wrapping_add(n as u64);
                let values: Vec<f64> = (0..n)
                    .map(|i| {
                        state = state.wrapping_mul(6_364_136_223_846_793_005).wrapping_add(1_442_695_040_888_963_407);
                        let noise = ((state >> 33) % 40) as f64;
                        if i < step_at { noise } else { noise + 15.0 }
                    })
                    .collect();
                let calibration = SelectionCalibration {
                    permutation_order_budget: NonZero::new(4).expect("nonzero"),
                    analytic_weight: 0.1,
                    accept_analytic_below: 1.0,
                    reject_at_or_above: 1.0,
                };
                let Some(adjusted) = selection_adjusted_change_point(&values, 5, calibration) else {
                    continue;
                };
                let (before, after) = values.split_at(adjusted.index);
                let reference = mann_whitney_u_pvalue(before, after);
                checked += 1;
                if adjusted.tainted_p.to_bits() != reference.to_bits() {
                    eprintln!(
                        "n={n} split={} : selection scorer p={:e}, MannWhitneyU p={:e}",
                        adjusted.index, adjusted.tainted_p, reference
                    );
                    return ExitCode::from(1);
                }
            }
        }
    }
    println!("{{\"checked\":{checked}}}");
    ExitCode::SUCCESS
}
