//! Native replay (real code, two OS threads, `--cfg folo_verif` yield point) of the schedule the
//! mirproto model found for C08 on the manual-reset event:
//!
//!   T0: set()  ... fetch_or(IS_SET) observes HAS_WAITERS, then is preempted before advance_generation()
//!   T2: w0.poll -> Ready                (observes the set)
//!   T1: reset()                         (completes)
//!   T1: w1 = wait(); w1.poll -> Pending (registers: event is reset, old generation)
//!   T0: resumes: advance_generation(); drains w1 although it started waiting after the reset
//!
//! Observable: w1's waker is invoked and w1 completes while try_wait() is false and no set() was
//! invoked after reset() returned. Exit code 1 if the history is observed, 0 otherwise.
use std::future::Future;
use std::pin::Pin;
use std::sync::atomic::{AtomicUsize, Ordering};
use std::sync::{Arc, Barrier};
use std::task::{Context, Poll, Wake, Waker};

use events::ManualResetEvent;

struct CountWaker(AtomicUsize);
impl Wake for CountWaker {
    fn wake(self: Arc<Self>) {
        self.0.fetch_add(1, Ordering::SeqCst);
    }
}

fn main() {
    let ev = ManualResetEvent::boxed();
    let c0 = Arc::new(CountWaker(AtomicUsize::new(0)));
    let c1 = Arc::new(CountWaker(AtomicUsize::new(0)));
    let w0_waker = Waker::from(Arc::clone(&c0));
    let w1_waker = Waker::from(Arc::clone(&c1));

    // w0 is registered first, so that set() takes its slow path (HAS_WAITERS observed).
    let mut w0 = Box::pin(ev.wait());
    assert!(w0.as_mut().poll(&mut Context::from_waker(&w0_waker)).is_pending());

    let entered = Arc::new(Barrier::new(2));
    let proceed = Arc::new(Barrier::new(2));
    {
        let (e, p) = (Arc::clone(&entered), Arc::clone(&proceed));
        events::folo_verif_hooks::install("manual_set_after_fetch_or", Arc::new(move || {
            e.wait();
            p.wait();
        }));
    }
    let setter = {
        let ev = ev.clone();
        std::thread::spawn(move || {
            events::folo_verif_hooks::participate(true);
            ev.set();
        })
    };
    entered.wait(); // T0 has published IS_SET and is parked before advance_generation()

    let w0_ready = w0.as_mut().poll(&mut Context::from_waker(&w0_waker)).is_ready();
    ev.reset(); // completes here
    assert!(!ev.try_wait(), "event is reset");
    let mut w1 = Box::pin(ev.wait()); // starts strictly after reset() returned
    let first = w1.as_mut().poll(&mut Context::from_waker(&w1_waker));
    assert!(first.is_pending(), "the gate is closed, so the new waiter registers");

    proceed.wait();
    setter.join().unwrap();

    let woken = c1.0.load(Ordering::SeqCst);
    let still_reset = !ev.try_wait();
    let second = w1.as_mut().poll(&mut Context::from_waker(&w1_waker));
    println!("w0 observed the set before the reset: {w0_ready}");
    println!("event still reset after set() returned: {still_reset}");
    println!("w1 (started after reset() returned) woken {woken} time(s); re-poll ready: {}", second.is_ready());
    if w0_ready && still_reset && woken == 1 && second.is_ready() {
        println!("REPRODUCED: one set() released a waiter before the reset AND a waiter that started after the reset");
        std::process::exit(1);
    }
    println!("not reproduced");
}
