//! usage: folo_verif_future_deque_seq <script> <ops>
//!   script = comma list of give|pending|ready (behaviour of the contained future per poll, last repeats)
//!   ops    = comma list of P1|P2 (deque poll with task waker 1/2) | D (drop the deque) | wake | wake_by_ref | clone | drop
//! Prints how often the contained future was polled and how often each task waker was invoked.
use std::future::Future;
use std::pin::Pin;
use std::sync::atomic::{AtomicUsize, Ordering};
use std::sync::{Arc, Mutex};
use std::task::{Context, Poll, Wake, Waker};

use future_deque::FutureDeque;

struct Script {
    acts: Vec<String>,
    n: usize,
    given: Arc<Mutex<Vec<Waker>>>,
    polls: Arc<AtomicUsize>,
}
impl Future for Script {
    type Output = u32;
    fn poll(mut self: Pin<&mut Self>, cx: &mut Context<'_>) -> Poll<u32> {
        let i = self.n.min(self.acts.len() - 1);
        self.n += 1;
        self.polls.fetch_add(1, Ordering::SeqCst);
        match self.acts[i].as_str() {
            "give" => {
                self.given.lock().unwrap().push(cx.waker().clone());
                Poll::Pending
            }
            "pending" => Poll::Pending,
            _ => Poll::Ready(7),
        }
    }
}

struct Task(AtomicUsize);
impl Wake for Task {
    fn wake(self: Arc<Self>) {
        self.0.fetch_add(1, Ordering::SeqCst);
    }
    fn wake_by_ref(self: &Arc<Self>) {
        self.0.fetch_add(1, Ordering::SeqCst);
    }
}

fn main() {
    let script: Vec<String> = std::env::args().nth(1).expect("script").split(',').map(String::from).collect();
    let ops = std::env::args().nth(2).unwrap_or_default();
    let given = Arc::new(Mutex::new(Vec::new()));
    let polls = Arc::new(AtomicUsize::new(0));
    let tasks = [Arc::new(Task(AtomicUsize::new(0))), Arc::new(Task(AtomicUsize::new(0)))];
    let wakers = [Waker::from(Arc::clone(&tasks[0])), Waker::from(Arc::clone(&tasks[1]))];
    let mut dq: Option<FutureDeque<u32>> = Some(FutureDeque::new());
    dq.as_mut().unwrap().push_back(Script { acts: script, n: 0, given: Arc::clone(&given), polls: Arc::clone(&polls) });
    for op in ops.split(',').filter(|s| !s.is_empty()) {
        match op {
            "P1" | "P2" => {
                let w = &wakers[if op == "P1" { 0 } else { 1 }];
                let _ = dq.as_mut().expect("deque alive").poll(&Context::from_waker(w));
            }
            "D" => drop(dq.take()),
            "wake" => given.lock().unwrap().pop().expect("a waker").wake(),
            "wake_by_ref" => given.lock().unwrap().last().expect("a waker").wake_by_ref(),
            "clone" => {
                let c = given.lock().unwrap().last().expect("a waker").clone();
                given.lock().unwrap().push(c);
            }
            "drop" => drop(given.lock().unwrap().pop().expect("a waker")),
            other => panic!("unknown op {other}"),
        }
    }
    println!("{{\"future_polls\": {}, \"woken\": [{}, {}]}}", polls.load(Ordering::SeqCst), tasks[0].0.load(Ordering::SeqCst), tasks[1].0.load(Ordering::SeqCst));
}
