//! Sequential validation of the mirproto translation (Serval-style): every scenario of the C05/C06
//! model is executed on the REAL thread-safe event through the public API with one operation at a
//! time in a given order, with counting payloads and wakers; the observable tuple is printed as
//! JSON and compared with the model's result under the same (pinned) order.
//!
//! usage: events_once_seq <sender: send|drop> <recv ops: comma list> <order: comma list of S|R>
use std::future::Future;
use std::pin::Pin;
use std::sync::atomic::{AtomicUsize, Ordering::SeqCst};
use std::sync::Arc;
use std::task::{Context, Poll, RawWaker, RawWakerVTable, Waker};

use events_once::{Event, IntoValueError};

static PAYLOAD_DROPS: AtomicUsize = AtomicUsize::new(0);
struct Payload(u32);
impl Drop for Payload {
    fn drop(&mut self) {
        PAYLOAD_DROPS.fetch_add(1, SeqCst);
    }
}

static CLONES: AtomicUsize = AtomicUsize::new(0);
static DROPS: AtomicUsize = AtomicUsize::new(0);
static WOKEN: AtomicUsize = AtomicUsize::new(0); // bit mask by waker id

unsafe fn w_clone(d: *const ()) -> RawWaker {
    CLONES.fetch_add(1, SeqCst);
    RawWaker::new(d, &VT)
}
unsafe fn w_wake(d: *const ()) {
    WOKEN.fetch_or(1 << (d as usize), SeqCst);
    DROPS.fetch_add(1, SeqCst);
}
unsafe fn w_wake_by_ref(d: *const ()) {
    WOKEN.fetch_or(1 << (d as usize), SeqCst);
}
unsafe fn w_drop(_d: *const ()) {
    DROPS.fetch_add(1, SeqCst);
}
static VT: RawWakerVTable = RawWakerVTable::new(w_clone, w_wake, w_wake_by_ref, w_drop);
/// The caller's own waker (not counted: the model counts clones made by the event only).
fn caller_waker(id: usize) -> std::mem::ManuallyDrop<Waker> {
    std::mem::ManuallyDrop::new(unsafe { Waker::from_raw(RawWaker::new(id as *const (), &VT)) })
}

fn main() {
    let args: Vec<String> = std::env::args().collect();
    let sender_op = args[1].as_str();
    let recv_ops: Vec<&str> = args[2].split(',').filter(|s| !s.is_empty()).collect();
    let order: Vec<&str> = args[3].split(',').collect();

    let (sender, receiver) = Event::<Payload>::boxed();
    let mut sender = Some(sender);
    let mut receiver = Some(Box::pin(receiver));
    let mut outcome = 0; // 1 value, 2 disconnected
    let mut delivered = 0;
    let mut last_pending = 0;
    let mut ri = 0;
    for who in order {
        if who == "S" {
            let s = sender.take().expect("sender runs once");
            if sender_op == "send" {
                s.send(Payload(7));
            } else {
                drop(s);
            }
        } else {
            if ri >= recv_ops.len() {
                continue;
            }
            let op = recv_ops[ri];
            ri += 1;
            let Some(mut r) = receiver.take() else { continue };
            if let Some(w) = op.strip_prefix("poll") {
                let id: usize = w.parse().unwrap();
                let waker = caller_waker(id);
                match r.as_mut().poll(&mut Context::from_waker(&waker)) {
                    Poll::Pending => {
                        last_pending = id;
                        receiver = Some(r);
                    }
                    Poll::Ready(Ok(v)) => {
                        assert!(v.0 == 7);
                        outcome = 1;
                        delivered += 1;
                        last_pending = 0;
                        std::mem::forget(v); // the user owns it: not a destruction by the event
                    }
                    Poll::Ready(Err(_)) => {
                        outcome = 2;
                        last_pending = 0;
                    }
                }
            } else if op == "is_ready" {
                let _ = r.is_ready();
                receiver = Some(r);
            } else if op == "into_value" {
                let inner = unsafe { Pin::into_inner_unchecked(r) };
                match (*inner).into_value() {
                    Ok(v) => {
                        outcome = 1;
                        delivered += 1;
                        last_pending = 0;
                        std::mem::forget(v);
                    }
                    Err(IntoValueError::Pending(back)) => receiver = Some(Box::pin(back)),
                    Err(IntoValueError::Disconnected) => {
                        outcome = 2;
                        last_pending = 0;
                    }
                }
            } else if op == "drop" {
                drop(r);
                last_pending = 0;
            } else {
                panic!("unknown op {op}");
            }
        }
    }
    let recv_gone = receiver.is_none();
    println!(
        "{{\"outcome\":{outcome},\"delivered\":{delivered},\"vdrops\":{},\"clones\":{},\"wdrops\":{},\"woken\":{},\"last_pending\":{last_pending},\"recv_gone\":{recv_gone},\"sender_done\":{}}}",
        PAYLOAD_DROPS.load(SeqCst), CLONES.load(SeqCst), DROPS.load(SeqCst), WOKEN.load(SeqCst), sender.is_none()
    );
    std::mem::forget(receiver);
    std::mem::forget(sender);
}
