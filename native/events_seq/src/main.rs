//! Sequential validation of the mirproto translation for the reset events (C08): the thread programs
//! of a scenario are executed on the REAL events through the public API, one item at a time in a given
//! global order (single OS thread), with counting wakers; the observable tuple is printed as JSON and
//! compared with the model's result under the same pinned order.
//!
//! usage: events_seq <auto|manual> <programs: ';'-separated threads, ','-separated items> <order: ','-separated thread indexes>
//! items: set | reset | try | p<a>.<w> (poll wait future a with waker w) | d<a> (drop wait future a)
use std::future::Future;
use std::pin::Pin;
use std::sync::atomic::{AtomicUsize, Ordering::SeqCst};
use std::task::{Context, RawWaker, RawWakerVTable, Waker};

use events::{AutoResetEvent, ManualResetEvent};

static CLONES: AtomicUsize = AtomicUsize::new(0);
static DROPS: AtomicUsize = AtomicUsize::new(0);
static WOKEN: [AtomicUsize; 8] = [const { AtomicUsize::new(0) }; 8];
unsafe fn w_clone(d: *const ()) -> RawWaker {
    CLONES.fetch_add(1, SeqCst);
    RawWaker::new(d, &VT)
}
unsafe fn w_wake(d: *const ()) {
    WOKEN[d as usize].fetch_add(1, SeqCst);
    DROPS.fetch_add(1, SeqCst);
}
unsafe fn w_wake_by_ref(d: *const ()) {
    WOKEN[d as usize].fetch_add(1, SeqCst);
}
unsafe fn w_drop(_d: *const ()) {
    DROPS.fetch_add(1, SeqCst);
}
static VT: RawWakerVTable = RawWakerVTable::new(w_clone, w_wake, w_wake_by_ref, w_drop);
fn caller_waker(id: usize) -> std::mem::ManuallyDrop<Waker> {
    std::mem::ManuallyDrop::new(unsafe { Waker::from_raw(RawWaker::new(id as *const (), &VT)) })
}

enum Ev {
    Auto(AutoResetEvent),
    Manual(ManualResetEvent),
}
type Fut = Pin<Box<dyn Future<Output = ()>>>;
impl Ev {
    fn set(&self) {
        match self {
            Ev::Auto(e) => e.set(),
            Ev::Manual(e) => e.set(),
        }
    }
    fn reset(&self) {
        if let Ev::Manual(e) = self {
            e.reset();
        }
    }
    fn try_wait(&self) -> bool {
        match self {
            Ev::Auto(e) => e.try_wait(),
            Ev::Manual(e) => e.try_wait(),
        }
    }
    fn wait(&self) -> Fut {
        match self {
            Ev::Auto(e) => Box::pin(e.wait()),
            Ev::Manual(e) => Box::pin(e.wait()),
        }
    }
}

fn main() {
    let args: Vec<String> = std::env::args().collect();
    let ev = if args[1] == "auto" { Ev::Auto(AutoResetEvent::boxed()) } else { Ev::Manual(ManualResetEvent::boxed()) };
    let programs: Vec<Vec<String>> = args[2].split(';').map(|t| t.split(',').filter(|s| !s.is_empty()).map(String::from).collect()).collect();
    let order: Vec<usize> = args[3].split(',').map(|s| s.parse().unwrap()).collect();
    let mut next = vec![0_usize; programs.len()];
    let mut futs: Vec<Option<Fut>> = (0..4).map(|_| None).collect();
    let mut status = [0_u8; 4]; // 0 not started, 1 pending, 2 completed, 3 cancelled
    let mut tries: Vec<u8> = Vec::new();
    for t in order {
        if next[t] >= programs[t].len() {
            continue;
        }
        let item = programs[t][next[t]].clone();
        next[t] += 1;
        if item == "set" {
            ev.set();
        } else if item == "reset" {
            ev.reset();
        } else if item == "try" {
            tries.push(ev.try_wait() as u8);
        } else if let Some(rest) = item.strip_prefix('p') {
            let (a, w) = rest.split_once('.').unwrap();
            let (a, w): (usize, usize) = (a.parse().unwrap(), w.parse().unwrap());
            if status[a] >= 2 {
                continue;
            }
            if futs[a].is_none() {
                futs[a] = Some(ev.wait());
            }
            let waker = caller_waker(w);
            let ready = futs[a].as_mut().unwrap().as_mut().poll(&mut Context::from_waker(&waker)).is_ready();
            if ready {
                status[a] = 2;
                futs[a] = None; // the completed future is dropped
            } else {
                status[a] = 1;
            }
        } else if let Some(a) = item.strip_prefix('d') {
            let a: usize = a.parse().unwrap();
            if status[a] >= 2 {
                continue;
            }
            if futs[a].is_none() {
                futs[a] = Some(ev.wait());
            }
            futs[a] = None;
            status[a] = 3;
        } else {
            panic!("unknown item {item}");
        }
    }
    let woken: Vec<usize> = WOKEN.iter().map(|w| w.load(SeqCst)).collect();
    let live = CLONES.load(SeqCst) - DROPS.load(SeqCst);
    let stored = ev.try_wait();
    println!(
        "{{\"tries\":{:?},\"status\":{:?},\"woken\":{:?},\"live_wakers\":{live},\"stored\":{stored}}}",
        tries, &status[..], woken
    );
    std::mem::forget(futs);
}
