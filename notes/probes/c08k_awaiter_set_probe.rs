#[cfg(kani)]
mod h {
    use std::pin::Pin;
    use std::task::{RawWaker, RawWakerVTable, Waker};
    use awaiter_set::{Awaiter, AwaiterSet};
    static mut LIVE: i8 = 0;
    unsafe fn c(d: *const ()) -> RawWaker { unsafe { LIVE += 1; } RawWaker::new(d, &VT) }
    unsafe fn w(_d: *const ()) { unsafe { LIVE -= 1; } }
    unsafe fn wr(_d: *const ()) {}
    unsafe fn d(_d: *const ()) { unsafe { LIVE -= 1; } }
    static VT: RawWakerVTable = RawWakerVTable::new(c, w, wr, d);
    fn wk(id: usize) -> Waker { unsafe { LIVE += 1; Waker::from_raw(RawWaker::new(id as *const (), &VT)) } }

    #[kani::proof]
    #[kani::unwind(5)]
    fn three_awaiters_fifo() {
        let mut set = AwaiterSet::new();
        let mut a = [Awaiter::new(), Awaiter::new(), Awaiter::new()];
        let (a0, rest) = a.split_at_mut(1);
        let (a1, a2) = rest.split_at_mut(1);
        unsafe {
            set.register(Pin::new_unchecked(&mut a0[0]), wk(1));
            set.register(Pin::new_unchecked(&mut a1[0]), wk(2));
            set.register(Pin::new_unchecked(&mut a2[0]), wk(3));
        }
        // remove a solver-chosen one
        let which: u8 = kani::any();
        kani::assume(which < 3);
        unsafe {
            match which {
                0 => set.unregister(Pin::new_unchecked(&mut a0[0])),
                1 => set.unregister(Pin::new_unchecked(&mut a1[0])),
                _ => set.unregister(Pin::new_unchecked(&mut a2[0])),
            }
        }
        let first = set.notify_one().unwrap();
        let expect_first = if which == 0 { 2 } else { 1 };
        assert!(first.data() as usize == expect_first);
        let second = set.notify_one().unwrap();
        let expect_second = if which == 2 { 2 } else { 3 };
        assert!(second.data() as usize == expect_second);
        assert!(set.notify_one().is_none());
        assert!(set.is_empty());
        drop(first); drop(second);
        unsafe { assert!(LIVE == 0); }
    }
}
