use super::*;

const NB: usize = 66;

const fn mk() -> [Magnitude; NB] { let mut a = [0i64; NB]; let mut i = 0; while i < NB { a[i] = (i as i64) * 10 - 50; i += 1; } a }
static MAGS: [Magnitude; NB] = mk();
fn leak_magnitudes(_n: usize) -> &'static [Magnitude] { &MAGS }

#[kani::proof]
#[kani::unwind(68)]
fn insert_push_accounting_66_buckets() {
    let mags = leak_magnitudes(NB);
    let local = ObservationBag::new(mags);
    let shared = ObservationBagSync::new(mags);

    // reference model
    let mut ref_count: u64 = 0;
    let mut ref_sum: i64 = 0;
    let probe: usize = kani::any();
    kani::assume(probe < NB);
    let mut ref_bucket: u64 = 0;

    for _ in 0..2 {
        let m: Magnitude = kani::any();
        let c: usize = kani::any();
        kani::assume(c <= 3);
        local.insert(m, c);
        ref_count = ref_count.wrapping_add(c as u64);
        ref_sum = ref_sum.wrapping_add(m.wrapping_mul(c as i64));
        // first bucket whose bound >= m
        let lands_in_probe = m <= mags[probe] && (probe == 0 || m > mags[probe - 1]);
        if lands_in_probe { ref_bucket = ref_bucket.wrapping_add(c as u64); }
        if kani::any() { shared.copy_from(&local); }
    }
    shared.copy_from(&local);
    let snap = shared.snapshot();
    assert!(snap.count == ref_count);
    assert!(snap.sum == ref_sum);
    assert!(snap.bucket_counts[probe] == ref_bucket);
}
