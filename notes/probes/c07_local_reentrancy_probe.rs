#[cfg(kani)]
mod h {
    use std::future::Future;
    use std::pin::Pin;
    use std::task::{Context, Poll, RawWaker, RawWakerVTable, Waker};
    use events_once::{BoxedLocalReceiver, BoxedLocalSender, LocalEvent};

    static mut P_DROPS: u8 = 0;
    static mut GOT: u8 = 0;
    static mut W_LIVE: i8 = 0;
    static mut W_WAKES: u8 = 0;
    static mut DEPTH: u8 = 0;
    static mut SENDER: Option<BoxedLocalSender<P>> = None;
    static mut RECEIVER: Option<BoxedLocalReceiver<P>> = None;

    struct P(u8);
    impl Drop for P { fn drop(&mut self) { unsafe { P_DROPS += 1; } } }

    fn take_sender() -> Option<BoxedLocalSender<P>> { unsafe { (*(&raw mut SENDER)).take() } }
    fn take_receiver() -> Option<BoxedLocalReceiver<P>> { unsafe { (*(&raw mut RECEIVER)).take() } }

    // A re-entrant action performed inside a waker callback.
    fn callback_action() {
        unsafe {
            if DEPTH >= 1 { return; }
            DEPTH += 1;
            let a: u8 = kani::any();
            match a % 4 {
                0 => {}
                1 => { if let Some(s) = take_sender() { s.send(P(9)); } }
                2 => { if let Some(s) = take_sender() { drop(s); } }
                _ => { if let Some(r) = take_receiver() { drop(r); } }
            }
            DEPTH -= 1;
        }
    }

    unsafe fn w_clone(d: *const ()) -> RawWaker { unsafe { W_LIVE += 1; } callback_action(); RawWaker::new(d, &VT) }
    unsafe fn w_wake(_d: *const ()) { unsafe { W_WAKES += 1; W_LIVE -= 1; } callback_action(); }
    unsafe fn w_wake_ref(_d: *const ()) { unsafe { W_WAKES += 1; } callback_action(); }
    unsafe fn w_drop(_d: *const ()) { unsafe { W_LIVE -= 1; } callback_action(); }
    static VT: RawWakerVTable = RawWakerVTable::new(w_clone, w_wake, w_wake_ref, w_drop);

    #[kani::proof]
    #[kani::unwind(4)]
    fn reentrant_program() {
        let (s, r) = LocalEvent::<P>::boxed();
        unsafe { SENDER = Some(s); RECEIVER = Some(r); }
        let waker = unsafe { W_LIVE += 1; Waker::from_raw(RawWaker::new(std::ptr::null(), &VT)) };
        let mut cx = Context::from_waker(&waker);

        if let Some(mut r) = take_receiver() {
            match Pin::new(&mut r).poll(&mut cx) {
                Poll::Ready(Ok(p)) => { unsafe { GOT += 1; } drop(p); }
                Poll::Ready(Err(_)) => {}
                Poll::Pending => { unsafe { if (*(&raw const RECEIVER)).is_none() { RECEIVER = Some(r); } } }
            }
        }
        if let Some(s) = take_sender() { s.send(P(5)); }
        drop(take_sender());
        drop(take_receiver());
        drop(cx);
        unsafe { DEPTH = 1; }
        drop(waker);
        unsafe {
            assert!(W_LIVE == 0);
            assert!(GOT <= 1);
        }
    }
}
