
    use std::alloc::{GlobalAlloc, Layout};
    use std::any::Any;
    use std::panic::catch_unwind;
    use crate::{Allocator, Session};
    fn cu_stub<F: FnOnce() -> R + std::panic::UnwindSafe, R>(f: F) -> Result<R, Box<dyn Any + Send + 'static>> { Ok(f()) }

    static mut LAST: (u8, usize, usize, usize, usize) = (0, 0, 0, 0, 0);
    static mut RET: usize = 0;
    struct Rec;
    unsafe impl GlobalAlloc for Rec {
        unsafe fn alloc(&self, l: Layout) -> *mut u8 { unsafe { LAST = (1, l.size(), l.align(), 0, 0); RET as *mut u8 } }
        unsafe fn dealloc(&self, p: *mut u8, l: Layout) { unsafe { LAST = (2, l.size(), l.align(), p as usize, 0); } }
        unsafe fn alloc_zeroed(&self, l: Layout) -> *mut u8 { unsafe { LAST = (3, l.size(), l.align(), 0, 0); RET as *mut u8 } }
        unsafe fn realloc(&self, p: *mut u8, l: Layout, n: usize) -> *mut u8 { unsafe { LAST = (4, l.size(), l.align(), p as usize, n); RET as *mut u8 } }
    }

    #[kani::proof]
    #[kani::unwind(4)]
    #[kani::stub(catch_unwind, cu_stub)]
    fn passthrough_and_count() {
        let a = Allocator::new(Rec);
        let size: usize = kani::any(); let al: u8 = kani::any();
        kani::assume(al < 8 && size < (1 << 40));
        let l = Layout::from_size_align(size, 1usize << al).unwrap();
        let ret: usize = kani::any();
        unsafe { RET = ret; }
        let c0 = crate::allocator::get_or_init_thread_counters();
        let (b0, n0) = (c0.bytes(), c0.count());
        let t0 = crate::allocator::allocation_totals();
        let kind: u8 = kani::any();
        kani::assume(kind >= 1 && kind <= 4);
        let n: usize = kani::any();
        kani::assume(n < (1 << 40));
        let got = unsafe { match kind {
            1 => a.alloc(l) as usize,
            2 => { a.dealloc(ret as *mut u8, l); ret }
            3 => a.alloc_zeroed(l) as usize,
            _ => a.realloc(ret as *mut u8, l, n) as usize,
        } };
        unsafe {
            assert!(got == ret);
            assert!(LAST.0 == kind && LAST.1 == size && LAST.2 == (1usize << al));
            if kind == 4 { assert!(LAST.4 == n && LAST.3 == ret); }
        }
        let expected_bytes = match kind { 1 | 3 => size as u64, 4 => n as u64, _ => 0 };
        let c1 = crate::allocator::get_or_init_thread_counters();
        assert!(c1.bytes() - b0 == expected_bytes);
        assert!(c1.count() - n0 == if kind == 2 { 0 } else { 1 });
        let t1 = crate::allocator::allocation_totals();
        assert!(t1.bytes - t0.bytes == expected_bytes);
    }
