use std::num::NonZero;
use std::any::Any;
use std::panic::catch_unwind;
use std::panic::resume_unwind;
fn ru_stub(_p: Box<dyn Any + Send>) -> ! { std::mem::forget(_p); panic!("resume_unwind") }
use crate::*;

static mut FOLO_VERIF_CAPACITY: usize = 0;
pub(crate) fn capacity_override() -> Option<NonZero<usize>> { unsafe { NonZero::new(FOLO_VERIF_CAPACITY) } }
pub(crate) fn capacity_override_raw() -> usize { unsafe { FOLO_VERIF_CAPACITY } }

static mut DROPS: [u8; 8] = [0; 8];
struct D(u8, u64);
impl Drop for D { fn drop(&mut self) { unsafe { DROPS[self.0 as usize] += 1; } } }

fn cu_stub<F: FnOnce() -> R + std::panic::UnwindSafe, R>(f: F) -> Result<R, Box<dyn Any + Send + 'static>> { Ok(f()) }

fn disjoint(a: usize, b: usize, sz: usize) -> bool { a + sz <= b || b + sz <= a }

// shape: i i i r(sym) i  at capacity 2 (crosses slab boundary, reuses lowest vacancy)
#[kani::proof]
#[kani::unwind(4)]
#[kani::stub(catch_unwind, cu_stub)]
#[kani::stub(resume_unwind, ru_stub)]
fn shape_iiiri_cap2() {
    unsafe { FOLO_VERIF_CAPACITY = 2; }
    let sz = std::mem::size_of::<D>();
    let mut pool = RawOpaquePool::with_layout_of::<D>();
    let v: [u64; 4] = kani::any();
    let h0 = pool.insert(D(0, v[0])).into_shared();
    let h1 = pool.insert(D(1, v[1])).into_shared();
    let h2 = pool.insert(D(2, v[2])).into_shared();
    let p = [h0.ptr().as_ptr() as usize, h1.ptr().as_ptr() as usize, h2.ptr().as_ptr() as usize];
    assert!(disjoint(p[0], p[1], sz) && disjoint(p[0], p[2], sz) && disjoint(p[1], p[2], sz));
    assert!(p[0] % 8 == 0 && p[1] % 8 == 0 && p[2] % 8 == 0);
    assert!(pool.len() == 3 && pool.capacity() == 4);
    let which: u8 = kani::any();
    kani::assume(which < 3);
    unsafe {
        match which { 0 => pool.remove(h0), 1 => pool.remove(h1), _ => pool.remove(h2) }
        assert!(DROPS[which as usize] == 1);
    }
    assert!(pool.len() == 2);
    let h3 = pool.insert(D(3, v[3])).into_shared();
    let q = h3.ptr().as_ptr() as usize;
    // lowest vacancy reused; live objects untouched
    assert!(q == p[which as usize]);
    unsafe {
        if which != 0 { assert!(h0.as_ref().1 == v[0] && h0.ptr().as_ptr() as usize == p[0]); }
        if which != 1 { assert!(h1.as_ref().1 == v[1]); }
        if which != 2 { assert!(h2.as_ref().1 == v[2]); }
        assert!(h3.as_ref().1 == v[3]);
    }
    assert!(pool.len() == 3 && pool.capacity() == 4);
    let n = pool.iter().count();
    assert!(n == 3);
    drop(pool);
    unsafe { assert!(DROPS[0] == 1 && DROPS[1] == 1 && DROPS[2] == 1 && DROPS[3] == 1); }
}

#[kani::proof]
fn slab_layout_arith() {
    unsafe { FOLO_VERIF_CAPACITY = 0; }
    let size: usize = kani::any();
    let align_log: u8 = kani::any();
    kani::assume(align_log <= 12);
    let align = 1usize << align_log;
    kani::assume(size >= 1 && size <= (4 << 20));
    let ol = std::alloc::Layout::from_size_align(size, align).unwrap();
    let l = crate::SlabLayout::new(ol);
    let off = l.slot_to_object_offset();
    let stride = l.slot_layout().size();
    assert!(off % align == 0);
    assert!(off >= std::mem::size_of::<crate::SlotMeta>());
    assert!(off + size <= stride);
    assert!(stride % l.slot_layout().align() == 0);
    assert!(l.slot_layout().align() >= align);
    assert!(l.capacity().get() >= 1);
    assert!(l.slot_array_layout().size() == stride * l.capacity().get());
}

// vacancy map: arbitrary 3-block state, first_one vs reference
#[kani::proof]
#[kani::unwind(5)]
fn vacancy_first_one() {
    let mut m = crate::VacancyMap::new();
    let len: usize = kani::any();
    kani::assume(len >= 1 && len <= 192);
    m.resize(len, true);
    // clear up to 3 arbitrary bits
    for _ in 0..3 {
        let i: usize = kani::any();
        kani::assume(i < len);
        let _ = unsafe { m.replace_unchecked(i, kani::any()) };
    }
    let start: usize = kani::any();
    kani::assume(start <= len);
    let got = m.get(start..).and_then(|s| s.first_one());
    if let Some(r) = got {
        assert!(start + r < len);
        let old = unsafe { m.replace_unchecked(start + r, true) };
        assert!(old);
    }
}

#[kani::proof]
#[kani::unwind(4)]
#[kani::stub(catch_unwind, cu_stub)]
#[kani::stub(resume_unwind, ru_stub)]
fn slab_shape_cap2() {
    unsafe { FOLO_VERIF_CAPACITY = 2; }
    let layout = crate::SlabLayout::new(std::alloc::Layout::new::<D>());
    let mut slab = crate::Slab::new(layout, DropPolicy::MayDropContents);
    let v: [u64; 3] = kani::any();
    let h0 = unsafe { slab.insert_with_unchecked(|s: &mut std::mem::MaybeUninit<D>| { s.write(D(0, v[0])); }) };
    let h1 = unsafe { slab.insert_with_unchecked(|s: &mut std::mem::MaybeUninit<D>| { s.write(D(1, v[1])); }) };
    assert!(slab.is_full());
    let p0 = h0.ptr().as_ptr() as usize; let p1 = h1.ptr().as_ptr() as usize;
    assert!(disjoint(p0, p1, std::mem::size_of::<D>()));
    let which: bool = kani::any();
    unsafe { if which { slab.remove(h0); } else { slab.remove(h1); } }
    assert!(slab.len() == 1);
    let h2 = unsafe { slab.insert_with_unchecked(|s: &mut std::mem::MaybeUninit<D>| { s.write(D(2, v[2])); }) };
    assert!(h2.ptr().as_ptr() as usize == if which { p0 } else { p1 });
    unsafe {
        assert!(h2.ptr().as_ref().1 == v[2]);
        if which { assert!(h1.ptr().as_ref().1 == v[1]); } else { assert!(h0.ptr().as_ref().1 == v[0]); }
    }
    assert!(slab.iter().count() == 2);
    drop(slab);
    unsafe { assert!(DROPS[0] == 1 && DROPS[1] == 1 && DROPS[2] == 1); }
}

#[kani::proof]
#[kani::unwind(4)]
#[kani::stub(catch_unwind, cu_stub)]
#[kani::stub(resume_unwind, ru_stub)]
fn shape_iii_cap2_noiter_nodrop() {
    unsafe { FOLO_VERIF_CAPACITY = 2; }
    let sz = std::mem::size_of::<D>();
    let mut pool = RawOpaquePool::with_layout_of::<D>();
    let v: [u64; 3] = kani::any();
    let h0 = pool.insert(D(0, v[0])).into_shared();
    let h1 = pool.insert(D(1, v[1])).into_shared();
    let h2 = pool.insert(D(2, v[2])).into_shared();
    let p = [h0.ptr().as_ptr() as usize, h1.ptr().as_ptr() as usize, h2.ptr().as_ptr() as usize];
    assert!(disjoint(p[0], p[1], sz) && disjoint(p[0], p[2], sz) && disjoint(p[1], p[2], sz));
    assert!(pool.len() == 3 && pool.capacity() == 4);
    unsafe { assert!(h0.as_ref().1 == v[0] && h2.as_ref().1 == v[2]); }
    std::mem::forget(pool);
}

#[kani::proof]
#[kani::unwind(4)]
#[kani::stub(catch_unwind, cu_stub)]
#[kani::stub(resume_unwind, ru_stub)]
fn shape_iii_r_i_cap2_nodrop() {
    unsafe { FOLO_VERIF_CAPACITY = 2; }
    let mut pool = RawOpaquePool::with_layout_of::<D>();
    let v: [u64; 4] = kani::any();
    let h0 = pool.insert(D(0, v[0])).into_shared();
    let h1 = pool.insert(D(1, v[1])).into_shared();
    let h2 = pool.insert(D(2, v[2])).into_shared();
    let p = [h0.ptr().as_ptr() as usize, h1.ptr().as_ptr() as usize, h2.ptr().as_ptr() as usize];
    let which: u8 = kani::any();
    kani::assume(which < 3);
    unsafe { match which { 0 => pool.remove(h0), 1 => pool.remove(h1), _ => pool.remove(h2) } }
    assert!(pool.len() == 2);
    let h3 = pool.insert(D(3, v[3])).into_shared();
    assert!(h3.ptr().as_ptr() as usize == p[which as usize]);
    std::mem::forget(pool);
}

#[kani::proof]
#[kani::unwind(4)]
#[kani::stub(catch_unwind, cu_stub)]
#[kani::stub(resume_unwind, ru_stub)]
fn shape_ii_cap2() {
    unsafe { FOLO_VERIF_CAPACITY = 2; }
    let mut pool = RawOpaquePool::with_layout_of::<D>();
    let v: [u64; 2] = kani::any();
    let h0 = pool.insert(D(0, v[0])).into_shared();
    let h1 = pool.insert(D(1, v[1])).into_shared();
    assert!(h0.ptr() != h1.ptr());
    assert!(pool.len() == 2 && pool.capacity() == 2);
    unsafe { assert!(h0.as_ref().1 == v[0] && h1.as_ref().1 == v[1]); }
    std::mem::forget(pool);
}

#[kani::proof]
#[kani::unwind(4)]
fn vec_sanity() {
    let mut v: Vec<u64> = Vec::new();
    v.push(kani::any());
    v.resize(2, u64::MAX);
    assert!(v[1] == u64::MAX);
}

#[kani::proof]
#[kani::unwind(4)]
#[kani::stub(catch_unwind, cu_stub)]
#[kani::stub(resume_unwind, ru_stub)]
fn shape_i_cap2() {
    unsafe { FOLO_VERIF_CAPACITY = 2; }
    let mut pool = RawOpaquePool::with_layout_of::<D>();
    let h0 = pool.insert(D(0, 5)).into_shared();
    assert!(pool.len() == 1 && pool.capacity() == 2);
    unsafe { assert!(h0.as_ref().1 == 5); }
    std::mem::forget(pool);
}

#[kani::proof]
#[kani::unwind(4)]
#[kani::stub(catch_unwind, cu_stub)]
#[kani::stub(resume_unwind, ru_stub)]
fn slab_in_vec() {
    unsafe { FOLO_VERIF_CAPACITY = 2; }
    let layout = crate::SlabLayout::new(std::alloc::Layout::new::<D>());
    let mut v: Vec<crate::Slab> = Vec::new();
    v.push(crate::Slab::new(layout, DropPolicy::MayDropContents));
    let slab = &mut v[0];
    let h0 = unsafe { slab.insert_with_unchecked(|s: &mut std::mem::MaybeUninit<D>| { s.write(D(0, 5)); }) };
    unsafe { assert!(h0.ptr().as_ref().1 == 5); }
    assert!(slab.len() == 1);
    std::mem::forget(v);
}

#[kani::proof]
#[kani::unwind(4)]
#[kani::stub(catch_unwind, cu_stub)]
#[kani::stub(resume_unwind, ru_stub)]
fn tracker_only() {
    let mut t = crate::VacancyTracker::new();
    t.update_slab_count(1);
    assert!(t.next_vacancy() == Some(0));
    unsafe { t.update_slab_status(0, false); }
    assert!(t.next_vacancy().is_none());
}

#[kani::proof]
#[kani::unwind(4)]
#[kani::stub(catch_unwind, cu_stub)]
#[kani::stub(resume_unwind, ru_stub)]
fn slab_in_box() {
    unsafe { FOLO_VERIF_CAPACITY = 2; }
    let layout = crate::SlabLayout::new(std::alloc::Layout::new::<D>());
    let mut b = Box::new(crate::Slab::new(layout, DropPolicy::MayDropContents));
    let h0 = unsafe { b.insert_with_unchecked(|s: &mut std::mem::MaybeUninit<D>| { s.write(D(0, 5)); }) };
    unsafe { assert!(h0.ptr().as_ref().1 == 5); }
    assert!(b.len() == 1);
    std::mem::forget(b);
}

#[kani::proof]
#[kani::unwind(4)]
#[kani::stub(catch_unwind, cu_stub)]
#[kani::stub(resume_unwind, ru_stub)]
fn slab_in_vec_with_capacity() {
    unsafe { FOLO_VERIF_CAPACITY = 2; }
    let layout = crate::SlabLayout::new(std::alloc::Layout::new::<D>());
    let mut v: Vec<crate::Slab> = Vec::with_capacity(2);
    let s = crate::Slab::new(layout, DropPolicy::MayDropContents);
    v.push(s);
    let slab = v.get_mut(0).unwrap();
    let h0 = unsafe { slab.insert_with_unchecked(|s: &mut std::mem::MaybeUninit<D>| { s.write(D(0, 5)); }) };
    unsafe { assert!(h0.ptr().as_ref().1 == 5); }
    std::mem::forget(v);
}

struct Big { a: [u64; 12], p: std::ptr::NonNull<u64> }
impl Drop for Big { fn drop(&mut self) { unsafe { drop(Box::from_raw(self.p.as_ptr())); } } }

#[kani::proof]
#[kani::unwind(4)]
fn vec_big_growth() {
    let mut v: Vec<Big> = Vec::new();
    let p = std::ptr::NonNull::new(Box::into_raw(Box::new(7u64))).unwrap();
    v.push(Big { a: [1; 12], p });
    unsafe { assert!(*v[0].p.as_ptr() == 7); }
    assert!(v[0].a[3] == 1);
    std::mem::forget(v);
}

#[kani::proof]
#[kani::unwind(4)]
#[kani::stub(catch_unwind, cu_stub)]
#[kani::stub(resume_unwind, ru_stub)]
fn slab_in_vec_nounsafe_cap() {
    // same as slab_in_vec but with the real capacity path disabled: FOLO_VERIF_CAPACITY stays 0 => real capacity (large) -> skip
    unsafe { FOLO_VERIF_CAPACITY = 2; }
    let layout = crate::SlabLayout::new(std::alloc::Layout::new::<D>());
    let s = crate::Slab::new(layout, DropPolicy::MayDropContents);
    let mut v: Vec<crate::Slab> = Vec::new();
    v.push(s);
    assert!(v[0].len() == 0);
    assert!(!v[0].is_full());
    std::mem::forget(v);
}

#[kani::proof]
#[kani::unwind(4)]
fn vec_slablayout_growth() {
    unsafe { FOLO_VERIF_CAPACITY = 2; }
    let layout = crate::SlabLayout::new(std::alloc::Layout::new::<D>());
    let mut v: Vec<crate::SlabLayout> = Vec::new();
    v.push(layout);
    assert!(v[0].capacity().get() == 2);
}

#[kani::proof]
#[kani::unwind(4)]
fn vec_layout_growth() {
    let mut v: Vec<std::alloc::Layout> = Vec::new();
    v.push(std::alloc::Layout::new::<D>());
    assert!(v[0].size() == 16);
}

struct S3 { l: crate::SlabLayout, d: DropPolicy, p: std::ptr::NonNull<crate::SlotMeta>, a: usize, b: usize }
#[kani::proof]
#[kani::unwind(4)]
fn vec_s3_growth() {
    unsafe { FOLO_VERIF_CAPACITY = 2; }
    let layout = crate::SlabLayout::new(std::alloc::Layout::new::<D>());
    let mut v: Vec<S3> = Vec::new();
    v.push(S3 { l: layout, d: DropPolicy::MayDropContents, p: std::ptr::NonNull::dangling(), a: 0, b: 7 });
    assert!(v[0].b == 7);
    assert!(v[0].l.capacity().get() == 2);
}

#[kani::proof]
#[kani::unwind(4)]
fn vec_arr8_growth() {
    let mut v: Vec<[u64; 8]> = Vec::new();
    v.push([3; 8]);
    assert!(v[0][5] == 3);
}
#[derive(Clone, Copy)]
struct NZ4 { a: std::num::NonZero<usize>, b: usize }
#[kani::proof]
#[kani::unwind(4)]
fn vec_nz_growth() {
    let mut v: Vec<NZ4> = Vec::new();
    v.push(NZ4 { a: std::num::NonZero::new(2).unwrap(), b: 9 });
    assert!(v[0].b == 9);
}
#[kani::proof]
fn vec_slablayout_growth_nounwind() {
    unsafe { FOLO_VERIF_CAPACITY = 2; }
    let layout = crate::SlabLayout::new(std::alloc::Layout::new::<D>());
    let mut v: Vec<crate::SlabLayout> = Vec::new();
    v.push(layout);
    assert!(v[0].capacity().get() == 2);
}

use std::alloc::Layout as L;
#[derive(Clone, Copy)] struct T1 { c: std::num::NonZero<usize>, l: L }
#[derive(Clone, Copy)] struct T2 { l1: L, l2: L }
#[derive(Clone, Copy)] struct T3 { l: L, u: usize }
#[derive(Clone, Copy)] struct T4 { c: std::num::NonZero<usize>, l1: L, l2: L, u: usize, l3: L }
macro_rules! vg { ($name:ident, $t:ty, $v:expr, $chk:expr) => {
    #[kani::proof]
    fn $name() { let mut v: Vec<$t> = Vec::new(); v.push($v); let x = v[0]; assert!($chk(x)); }
} }
vg!(vg_t1, T1, T1 { c: std::num::NonZero::new(2).unwrap(), l: L::new::<u64>() }, |x: T1| x.l.size() == 8);
vg!(vg_t2, T2, T2 { l1: L::new::<u64>(), l2: L::new::<u32>() }, |x: T2| x.l2.size() == 4);
vg!(vg_t3, T3, T3 { l: L::new::<u64>(), u: 5 }, |x: T3| x.u == 5);
vg!(vg_t4, T4, T4 { c: std::num::NonZero::new(2).unwrap(), l1: L::new::<u64>(), l2: L::new::<u32>(), u: 5, l3: L::new::<u8>() }, |x: T4| x.u == 5 && x.l3.size() == 1);
#[kani::proof]
fn vg_slablayout_const() {
    // SlabLayout built without FOLO_VERIF_CAPACITY override (real capacity) to rule the hook out
    unsafe { FOLO_VERIF_CAPACITY = 0; }
    let layout = crate::SlabLayout::new(L::new::<D>());
    let mut v: Vec<crate::SlabLayout> = Vec::new();
    v.push(layout);
    assert!(v[0].slot_to_object_offset() == 16);
}

macro_rules! capv { ($name:ident, $cap:expr) => {
    #[kani::proof]
    fn $name() {
        unsafe { FOLO_VERIF_CAPACITY = $cap; }
        let layout = crate::SlabLayout::new(L::new::<D>());
        let mut v: Vec<crate::SlabLayout> = Vec::new();
        v.push(layout);
        assert!(v[0].slot_to_object_offset() == 16);
    }
} }
capv!(capv_3, 3);
capv!(capv_32, 32);
capv!(capv_682, 682);
#[kani::proof]
fn capv_2_local() {
    unsafe { FOLO_VERIF_CAPACITY = 2; }
    let layout = crate::SlabLayout::new(L::new::<D>());
    let copy = layout;
    assert!(copy.capacity().get() == 2);
    let b = Box::new(layout);
    assert!(b.capacity().get() == 2);
}

#[kani::proof]
fn static_val_in_vec() {
    unsafe { FOLO_VERIF_CAPACITY = 3; }
    let u = unsafe { FOLO_VERIF_CAPACITY };
    let mut v: Vec<T4> = Vec::new();
    v.push(T4 { c: std::num::NonZero::new(2).unwrap(), l1: L::new::<u64>(), l2: L::new::<u32>(), u, l3: L::new::<u8>() });
    assert!(v[0].u == 3);
}
#[kani::proof]
fn static_layout_in_vec() {
    unsafe { FOLO_VERIF_CAPACITY = 3; }
    let u = unsafe { FOLO_VERIF_CAPACITY };
    let l = L::from_size_align(u * 8, 8).unwrap();
    let mut v: Vec<T3> = Vec::new();
    v.push(T3 { l, u: 1 });
    assert!(v[0].l.size() == 24);
}
#[kani::proof]
fn any_layout_in_vec() {
    let u: usize = kani::any();
    kani::assume(u == 3);
    let l = L::from_size_align(u * 8, 8).unwrap();
    let mut v: Vec<T3> = Vec::new();
    v.push(T3 { l, u: 1 });
    assert!(v[0].l.size() == 24);
}

static mut ZZ_OTHER: usize = 0;
#[kani::proof]
fn static_renamed_in_vec() {
    unsafe { ZZ_OTHER = 3; }
    let u = unsafe { ZZ_OTHER };
    let mut v: Vec<T3> = Vec::new();
    v.push(T3 { l: L::new::<u64>(), u });
    assert!(v[0].u == 3);
}
static AT: std::sync::atomic::AtomicUsize = std::sync::atomic::AtomicUsize::new(0);
#[kani::proof]
fn atomic_static_in_vec() {
    AT.store(3, std::sync::atomic::Ordering::Relaxed);
    let u = AT.load(std::sync::atomic::Ordering::Relaxed);
    let mut v: Vec<T3> = Vec::new();
    v.push(T3 { l: L::new::<u64>(), u });
    assert!(v[0].u == 3);
}
#[kani::proof]
fn static_read_only_in_vec() {
    let u = unsafe { ZZ_OTHER };
    let mut v: Vec<T3> = Vec::new();
    v.push(T3 { l: L::new::<u64>(), u });
    assert!(v[0].u == 0);
}
#[kani::proof]
fn static_u64_vec() {
    unsafe { ZZ_OTHER = 3; }
    let u = unsafe { ZZ_OTHER };
    let mut v: Vec<usize> = Vec::new();
    v.push(u);
    assert!(v[0] == 3);
}

pub(crate) fn set_capacity(n: usize) { unsafe { FOLO_VERIF_CAPACITY = n; } }
