#[cfg(kani)]
mod h {
    use std::any::Any;
    use std::panic::catch_unwind;
    use std::panic::resume_unwind;
    fn ru_stub(_p: Box<dyn Any + Send>) -> ! { std::mem::forget(_p); panic!("resume_unwind") }
    use infinity_pool::{OpaquePool, PooledMut};
    fn cu_stub<F: FnOnce() -> R + std::panic::UnwindSafe, R>(f: F) -> Result<R, Box<dyn Any + Send + 'static>> { Ok(f()) }

    struct Node { inner: Option<PooledMut<Node>>, v: u64 }

    // shape: outer object owns a handle to another object of the same pool; drop outer handle.
    #[kani::proof]
    #[kani::unwind(4)]
    #[kani::stub(catch_unwind, cu_stub)]
    #[kani::stub(resume_unwind, ru_stub)]
    fn nested_handle_drop_managed() {
        infinity_pool::__folo_verif_set_capacity(2);
        let pool = OpaquePool::with_layout_of::<Node>();
        let inner = pool.insert(Node { inner: None, v: 1 });
        let outer = pool.insert(Node { inner: Some(inner), v: 2 });
        assert!(pool.len() == 2);
        drop(outer);
        assert!(pool.len() == 0);
        std::mem::forget(pool);
    }

    // control: no nesting -> must pass (also the C03 sequential slice)
    #[kani::proof]
    #[kani::unwind(4)]
    #[kani::stub(catch_unwind, cu_stub)]
    #[kani::stub(resume_unwind, ru_stub)]
    fn flat_handles_managed() {
        infinity_pool::__folo_verif_set_capacity(2);
        let pool = OpaquePool::with_layout_of::<u64>();
        let a = pool.insert(kani::any::<u64>());
        let b = pool.insert(7u64).into_shared();
        let b2 = b.clone();
        let p2 = pool.clone();
        drop(pool);
        assert!(p2.len() == 2);
        drop(b);
        assert!(p2.len() == 2);
        drop(a);
        assert!(p2.len() == 1);
        assert!(*b2 == 7);
        drop(p2);
        assert!(*b2 == 7);
        drop(b2);
    }

    #[kani::proof]
    #[kani::unwind(4)]
    #[kani::stub(catch_unwind, cu_stub)]
    #[kani::stub(resume_unwind, ru_stub)]
    fn minimal_managed() {
        infinity_pool::__folo_verif_set_capacity(2);
        let pool = OpaquePool::with_layout_of::<u64>();
        let v: u64 = kani::any();
        let h = pool.insert(v);
        assert!(*h == v);
        assert!(pool.len() == 1);
        drop(h);
        assert!(pool.len() == 0);
        std::mem::forget(pool);
    }

    use infinity_pool::{LocalOpaquePool, LocalPooledMut};
    struct LNode { inner: Option<LocalPooledMut<LNode>>, v: u64 }
    #[kani::proof]
    #[kani::unwind(4)]
    #[kani::stub(catch_unwind, cu_stub)]
    #[kani::stub(resume_unwind, ru_stub)]
    fn minimal_local() {
        infinity_pool::__folo_verif_set_capacity(2);
        let pool = LocalOpaquePool::with_layout_of::<u64>();
        let v: u64 = kani::any();
        let h = pool.insert(v);
        assert!(*h == v);
        drop(h);
        assert!(pool.len() == 0);
        std::mem::forget(pool);
    }
    #[kani::proof]
    #[kani::unwind(4)]
    #[kani::stub(catch_unwind, cu_stub)]
    #[kani::stub(resume_unwind, ru_stub)]
    fn nested_local() {
        infinity_pool::__folo_verif_set_capacity(2);
        let pool = LocalOpaquePool::with_layout_of::<LNode>();
        let inner = pool.insert(LNode { inner: None, v: 1 });
        let outer = pool.insert(LNode { inner: Some(inner), v: 2 });
        drop(outer);
        assert!(pool.len() == 0);
        std::mem::forget(pool);
    }
}
