#!/usr/bin/env python3
"""Design-phase probe: extract the atomic-step skeleton of events_once core/sync.rs from a MIR dump."""
import re, sys, collections

def parse(path):
    funcs = {}
    cur = None
    for ln in open(path):
        ln = ln.rstrip('\n')
        if ln.startswith('fn ') and ln.endswith('{'):
            name = ln[3:ln.index('(')]
            cur = {'name': name, 'sig': ln, 'blocks': collections.OrderedDict(), 'locals': {}}
            funcs[name] = cur
            blk = None
            continue
        if cur is None:
            continue
        if ln == '}':
            cur = None
            continue
        m = re.match(r'^\s+let (?:mut )?(_\d+): (.*?);', ln)
        if m:
            cur['locals'][m.group(1)] = m.group(2)
        m = re.match(r'^\s+(bb\d+)(?: \(cleanup\))?: \{', ln)
        if m:
            blk = m.group(1)
            cur['blocks'][blk] = {'stmts': [], 'cleanup': '(cleanup)' in ln}
            continue
        if ln.strip() == '}' and cur is not None:
            blk = None
            continue
        if cur is not None and 'blocks' in cur and cur['blocks'] and blk is not None:
            body = ln.split(' // ')[0].strip()
            span = ln.split(' // ')[1] if ' // ' in ln else ''
            if body and not body.startswith('//') and not body.startswith('+'):
                cur['blocks'][blk]['stmts'].append((body, span))
    return funcs

ATOMIC = re.compile(r'Atomic::<u8>::(load|store|swap|fetch_add|fetch_and|fetch_or|compare_exchange)')
CELL = re.compile(r'MaybeUninit::<(.*?)>::(write|assume_init_read|assume_init_drop)|mut_ptr::<impl \*mut MaybeUninit<(.*?)>>::write')

def classify(stmt, fn):
    m = ATOMIC.search(stmt)
    if m:
        return 'ATOMIC ' + stmt
    if re.search(r'\bfence\(', stmt): return 'FENCE ' + stmt
    if 'spin_loop()' in stmt: return 'SPIN'
    m = CELL.search(stmt)
    if m: return 'CELL ' + stmt
    if 'Waker::wake' in stmt: return 'WAKE'
    if '<Waker as Clone>::clone' in stmt or 'as Clone>::clone' in stmt: return 'WAKER_CLONE ' + stmt
    if 'release_event' in stmt: return 'RELEASE'
    if 'panic_fmt' in stmt or 'panic(' in stmt: return 'PANIC'
    m = re.search(r'(core::sync::Event::<T>::\w+|Event::<T>::\w+)\(', stmt)
    if m and ' -> ' in stmt: return 'CALL ' + m.group(1)
    if stmt.startswith('drop('): return 'DROP ' + stmt
    return None

def succs(term):
    t = term
    out = []
    m = re.search(r'switchInt\((.*?)\) -> \[(.*)\]', t)
    if m:
        for part in m.group(2).split(', '):
            k, v = part.split(': ')
            out.append((f'{m.group(1)}=={k}', v))
        return out
    m = re.search(r'-> \[return: (bb\d+), unwind[^\]]*\]', t)
    if m: return [('', m.group(1))]
    m = re.search(r'goto -> (bb\d+)', t)
    if m: return [('', m.group(1))]
    m = re.search(r'-> (bb\d+);?$', t)
    if m: return [('', m.group(1))]
    m = re.search(r'drop\(.*\) -> \[return: (bb\d+)', t)
    if m: return [('', m.group(1))]
    return []

def skeleton(fn, ordvals):
    seen = set()
    def walk(b, depth, cond):
        ind = '  ' * depth
        if (b) in seen:
            print(f'{ind}{cond} -> {b} (seen)')
            return
        seen.add(b)
        blk = fn['blocks'][b]
        label = []
        for s, span in blk['stmts']:
            m = re.match(r'(_\d+) = (?:std::sync::atomic::)?Ordering::(\w+);', s)
            if m: ordvals[m.group(1)] = m.group(2)
            c = classify(s, fn)
            if c:
                c = re.sub(r'move (_\d+)', lambda mm: ordvals.get(mm.group(1), mm.group(0)), c)
                line = re.search(r'sync\w*\.rs:(\d+)', span)
                label.append(c[:110] + (f'  @{line.group(1)}' if line else ''))
        term = blk['stmts'][-1][0] if blk['stmts'] else ''
        ss = succs(term)
        if label or len(ss) != 1 or cond:
            print(f'{ind}{cond} {b}: ' + ' | '.join(label) + ('' if ss else f'  [{term[:40]}]'))
            depth += 1
        for c2, nb in ss:
            if nb in fn['blocks'] and not fn['blocks'][nb]['cleanup']:
                walk(nb, depth, c2)
    walk('bb0', 0, '')

if __name__ == '__main__':
    funcs = parse(sys.argv[1])
    for name, fn in funcs.items():
        if re.search(sys.argv[2], name):
            print('=' * 10, name.split('>::')[-1], f"({len(fn['blocks'])} blocks)")
            skeleton(fn, {})
