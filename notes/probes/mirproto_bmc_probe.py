#!/usr/bin/env python3
"""Design-phase feasibility probe (throw-away): MIR -> BMC over interleavings with z3.
Scenario: sender = drop-unsent, receiver = drop (final_poll), thread-safe events_once Event.
Monitors: exactly one release; release happens-after every access of the other thread (C06).
The endpoint wrappers (release iff Err / iff not Ok(None)) are hand-modelled here; the real engine
parses SenderCore::drop / ReceiverCore::drop from MIR as well."""
import re, sys, collections
import z3

MIR = sys.argv[1]
K = int(sys.argv[2]) if len(sys.argv) > 2 else 40
CONSTS = {'EVENT_BOUND': 0, 'EVENT_SET': 1, 'EVENT_AWAITING': 2, 'EVENT_SIGNALING': 3, 'EVENT_DISCONNECTED': 4}

def parse(path):
    funcs, cur, blk = {}, None, None
    for ln in open(path):
        ln = ln.rstrip('\n')
        if ln.startswith('fn ') and ln.endswith('{'):
            cur = {'name': ln[3:ln.index('(')], 'blocks': collections.OrderedDict(), 'locals': {}}
            funcs[cur['name']] = cur; blk = None; continue
        if cur is None: continue
        if ln == '}': cur = None; continue
        m = re.match(r'^\s+let (?:mut )?(_\d+): (.*?);', ln)
        if m: cur['locals'][m.group(1)] = m.group(2)
        m = re.match(r'^\s+(bb\d+)(?: \(cleanup\))?: \{', ln)
        if m: blk = m.group(1); cur['blocks'][blk] = []; continue
        if blk and ln.strip() == '}': blk = None; continue
        if blk:
            body = ln.split(' // ')[0].strip()
            if body and not body.startswith('+'): cur['blocks'][blk].append(body)
    return funcs

FUNCS = parse(MIR)
def find(suffix):
    c = [k for k in FUNCS if re.search(r'core::sync::<impl at .*sync\.rs:102:1.*>::' + suffix + '$', k)]
    assert len(c) == 1, (suffix, c); return FUNCS[c[0]]

# ---------- flatten with inlining ----------
class Node:  # one MIR basic block in one call context
    def __init__(s, ctx, fn, bb): s.ctx, s.fn, s.bb, s.id = ctx, fn, bb, None
NODES = {0: [], 1: []}          # per thread
def flatten(tid, fname):
    nodes = NODES[tid]; index = {}
    def inst(fn, ctx, ret):  # ret = node id to continue at after `return`
        for bb in fn['blocks']:
            n = Node(ctx, fn, bb); n.id = len(nodes); n.ret = ret; nodes.append(n); index[(ctx, bb)] = n.id
        return index[(ctx, 'bb0')]
    entry = inst(find(fname), 'c0', None)
    # resolve local calls lazily: inline on demand
    k = 0
    changed = True
    while changed:
        changed = False
        for n in list(nodes):
            term = n.fn['blocks'][n.bb][-1] if n.fn['blocks'][n.bb] else ''
            m = re.search(r'core::sync::Event::<T>::(\w+)\(', term)
            if m and not hasattr(n, 'callee'):
                r = re.search(r'return: (bb\d+)', term).group(1)
                k += 1
                n.callee = inst(find(m.group(1)), f'c{k}', index[(n.ctx, r)]); changed = True
    return entry, index

# ---------- symbolic state ----------
BV = lambda name: z3.BitVec(name, 8)
class State:
    def __init__(s, i):
        s.pc = [z3.Int(f'pc{t}_{i}') for t in (0, 1)]
        s.loc = {}                                      # (tid,ctx,local[,field]) -> BV8
        s.state = BV(f'state_{i}')
        s.released = z3.Int(f'released_{i}')           # number of releases so far
        s.aw_init = z3.Bool(f'aw_{i}')
        s.bad = z3.Bool(f'bad_{i}')                      # panic / unreachable / cell misuse
        s.race = z3.Bool(f'race_{i}')                    # release not ordered after other side's access
        # clocks: C[t][u], relview[u] of `state`, pending acquire view P[t][u], last event access A[t]
        s.C = [[z3.Int(f'C{t}{u}_{i}') for u in (0, 1)] for t in (0, 1)]
        s.P = [[z3.Int(f'P{t}{u}_{i}') for u in (0, 1)] for t in (0, 1)]
        s.RV = [z3.Int(f'RV{u}_{i}') for u in (0, 1)]
        s.A = [z3.Int(f'A{t}_{i}') for t in (0, 1)]
        s.ret = [BV(f'ret{t}_{i}') for t in (0, 1)]    # 0=Ok(())/Ok(None) 1=Ok(Some) 2=Err

TRACK = set()   # populated with (tid, ctx, local, field)
def collect_tracked(tid):
    for n in NODES[tid]:
        for l, ty in n.fn['locals'].items():
            if ty in ('u8', 'bool', 'isize'): TRACK.add((tid, n.ctx, l, 'v'))
            if 'Result<u8, u8>' in ty: TRACK.add((tid, n.ctx, l, 'tag')); TRACK.add((tid, n.ctx, l, 'v'))

def mx(a, b): return z3.If(a >= b, a, b)

def step_thread(tid, S, i):
    """returns dict var->expr for next state if thread tid moves at step i"""
    o = 1 - tid
    cases = []   # (guard, updates)
    for n in NODES[tid]:
        env = {}
        def get(l, f='v'):
            k = (tid, n.ctx, l, f)
            if k in env: return env[k]
            return S.loc[k] if k in S.loc else None
        alias, ords = {}, {}
        upd = {}
        shared = dict(state=S.state, released=S.released, aw=S.aw_init, bad=S.bad, race=S.race,
                      C=[list(S.C[0]), list(S.C[1])], P=[list(S.P[0]), list(S.P[1])], RV=list(S.RV), A=list(S.A), ret=list(S.ret))
        def operand(x):
            x = x.strip()
            m = re.match(r'const core::state::(\w+)', x)
            if m: return z3.BitVecVal(CONSTS[m.group(1)], 8)
            m = re.match(r'const (\d+)_u8', x)
            if m: return z3.BitVecVal(int(m.group(1)), 8)
            m = re.match(r'(?:copy|move) \(\((_\d+) as (?:Err|Ok)\)\.0: u8\)', x)
            if m: return get(m.group(1), 'v')
            m = re.match(r'(?:copy|move) (_\d+)', x)
            if m:
                l = alias.get(m.group(1), m.group(1)); return get(l)
            return None
        def tick():   # own clock component ++, and record event access
            shared['C'][tid][tid] = shared['C'][tid][tid] + 1
        def access():
            tick(); shared['A'][tid] = shared['C'][tid][tid]
            shared['bad'] = z3.Or(shared['bad'], shared['released'] > 0)      # access after release
        def acquire_from(view, ordering):
            if ordering in ('Acquire', 'AcqRel', 'SeqCst'):
                for u in (0, 1): shared['C'][tid][u] = mx(shared['C'][tid][u], view[u])
            else:
                for u in (0, 1): shared['P'][tid][u] = mx(shared['P'][tid][u], view[u])
        def publish(ordering, rmw):
            if ordering in ('Release', 'AcqRel', 'SeqCst'):
                base = shared['RV'] if rmw else [z3.IntVal(0), z3.IntVal(0)]
                shared['RV'] = [mx(base[u], shared['C'][tid][u]) for u in (0, 1)]
            elif not rmw:
                shared['RV'] = [z3.IntVal(0), z3.IntVal(0)]
        stmts = n.fn['blocks'][n.bb]
        nxt = None
        for s in stmts:
            m = re.match(r'(_\d+) = (?:std::sync::atomic::)?Ordering::(\w+);', s)
            if m: ords[m.group(1)] = m.group(2); continue
            m = re.match(r'(_\d+) = &(_\d+);', s)
            if m: alias[m.group(1)] = m.group(2); continue
            m = re.match(r'(_\d+) = discriminant\((_\d+)\);', s)
            if m: env[(tid, n.ctx, m.group(1), 'v')] = get(m.group(2), 'tag'); continue
            m = re.match(r'(_\d+) = Eq\((.*?), (.*)\);', s)
            if m:
                env[(tid, n.ctx, m.group(1), 'v')] = z3.If(operand(m.group(2)) == operand(m.group(3)), z3.BitVecVal(1, 8), z3.BitVecVal(0, 8)); continue
            m = re.match(r'_0 = Result::<.*?>::(Ok|Err)\((.*)\);', s)
            if m:
                if m.group(1) == 'Err': shared['ret'][tid] = z3.BitVecVal(2, 8)
                else:
                    a = m.group(2)
                    k = (tid, n.ctx, a.replace('move ', '').strip(), 'opt')
                    shared['ret'][tid] = env.get(k, z3.BitVecVal(0, 8))
                continue
            m = re.match(r'(_\d+) = Option::<T>::(None|Some)', s)
            if m: env[(tid, n.ctx, m.group(1), 'opt')] = z3.BitVecVal(0 if m.group(2) == 'None' else 1, 8); continue
            m = re.match(r'(_\d+) = ((?:copy|move) _\d+|const .*);', s)
            if m and (tid, n.ctx, m.group(1), 'v') in TRACK:
                v = operand(m.group(2))
                if v is not None: env[(tid, n.ctx, m.group(1), 'v')] = v
                continue
            # ---- terminators ----
            m = re.match(r'switchInt\((.*?)\) -> \[(.*)\];', s)
            if m:
                v = operand(m.group(1)); tgt = None
                parts = [p.split(': ') for p in m.group(2).split(', ')]
                other = [b for k, b in parts if k == 'otherwise'][0]
                e = z3.IntVal(node_id(tid, n.ctx, other))
                for k, b in reversed([p for p in parts if p[0] != 'otherwise']):
                    e = z3.If(v == z3.BitVecVal(int(k), 8), z3.IntVal(node_id(tid, n.ctx, b)), e)
                nxt = e; continue
            m = re.match(r'goto -> (bb\d+);', s)
            if m: nxt = z3.IntVal(node_id(tid, n.ctx, m.group(1))); continue
            if s == 'return;':
                nxt = z3.IntVal(n.ret if n.ret is not None else -1); continue
            if s == 'resume;':
                nxt = z3.IntVal(-1); continue
            m = re.match(r'drop\((_\d+)\) -> \[return: (bb\d+)', s)
            if m: nxt = z3.IntVal(node_id(tid, n.ctx, m.group(2))); continue
            if s == 'unreachable;' or 'panic_fmt' in s:
                shared['bad'] = z3.BoolVal(True); nxt = z3.IntVal(-1); continue
            m = re.match(r'(?:(_\d+) = )?(.+?)\((.*)\) -> \[return: (bb\d+)', s)
            if m:
                dst, callee, args, r = m.groups()
                nxt = z3.IntVal(node_id(tid, n.ctx, r))
                a = re.search(r'Atomic::<u8>::(\w+)', callee)
                if a:
                    op = a.group(1); al = [x.strip() for x in args.split(', ')]
                    access(); old = shared['state']
                    if op == 'load':
                        acquire_from(shared['RV'], ords.get(al[1].replace('move ', ''), '?')); env[(tid, n.ctx, dst, 'v')] = old
                    elif op == 'store':
                        shared['state'] = operand(al[1]); publish(ords[al[2].replace('move ', '')], False)
                    elif op in ('swap', 'fetch_add'):
                        o_ = ords[al[2].replace('move ', '')]
                        acquire_from(shared['RV'], o_)
                        shared['state'] = operand(al[1]) if op == 'swap' else old + operand(al[1])
                        publish(o_, True); env[(tid, n.ctx, dst, 'v')] = old
                    elif op == 'compare_exchange':
                        exp, new = operand(al[1]), operand(al[2]); so, fo = ords[al[3].replace('move ', '')], ords[al[4].replace('move ', '')]
                        ok = old == exp
                        # success and failure have different orderings: compute both and ite
                        c_s = dict(C=[list(x) for x in shared['C']], P=[list(x) for x in shared['P']], RV=list(shared['RV']))
                        saveC, saveP, saveRV = [list(x) for x in shared['C']], [list(x) for x in shared['P']], list(shared['RV'])
                        acquire_from(saveRV, so); publish(so, True)
                        Cs, Ps, RVs = [list(x) for x in shared['C']], [list(x) for x in shared['P']], list(shared['RV'])
                        shared['C'], shared['P'], shared['RV'] = [list(x) for x in saveC], [list(x) for x in saveP], list(saveRV)
                        acquire_from(saveRV, fo)
                        Cf, Pf, RVf = shared['C'], shared['P'], shared['RV']
                        shared['C'] = [[z3.If(ok, Cs[t][u], Cf[t][u]) for u in (0, 1)] for t in (0, 1)]
                        shared['P'] = [[z3.If(ok, Ps[t][u], Pf[t][u]) for u in (0, 1)] for t in (0, 1)]
                        shared['RV'] = [z3.If(ok, RVs[u], RVf[u]) for u in (0, 1)]
                        shared['state'] = z3.If(ok, new, old)
                        env[(tid, n.ctx, dst, 'tag')] = z3.If(ok, z3.BitVecVal(0, 8), z3.BitVecVal(1, 8)); env[(tid, n.ctx, dst, 'v')] = old
                    else: raise SystemExit('unsupported atomic ' + op)
                elif callee == 'fence':
                    tick()
                    if ords[args.replace('move ', '').strip()] in ('Acquire', 'AcqRel', 'SeqCst'):
                        for u in (0, 1): shared['C'][tid][u] = mx(shared['C'][tid][u], shared['P'][tid][u])
                elif callee == 'spin_loop': tick()
                elif 'Result::<u8, u8>::is_ok' in callee:
                    l = alias.get(args.replace('move ', '').strip()); env[(tid, n.ctx, dst, 'v')] = z3.If(get(l, 'tag') == 0, z3.BitVecVal(1, 8), z3.BitVecVal(0, 8))
                elif 'assume_init_drop' in callee or 'assume_init_read' in callee:
                    access()
                    if 'Waker' in callee:
                        shared['bad'] = z3.Or(shared['bad'], z3.Not(shared['aw'])); shared['aw'] = z3.BoolVal(False)
                elif 'Waker::wake' in callee: tick()
                elif re.search(r'core::sync::Event::<T>::(\w+)', callee): nxt = z3.IntVal(n.callee)
                elif any(p in callee for p in ('UnsafeCell', 'as_ref', 'as_mut', 'unwrap_unchecked', 'type_name', 'Argument', 'Arguments')): pass
                else: raise SystemExit('unsupported callee: ' + callee)
                continue
        assert nxt is not None, (n.fn['name'], n.bb, stmts)
        cases.append((n.id, nxt, env, shared))
    return cases

_index = {}
def node_id(tid, ctx, bb): return _index[tid][(ctx, bb)]

def main():
    e0, _index[0] = flatten(0, 'sender_dropped_without_set')
    e1, _index[1] = flatten(1, 'final_poll')
    collect_tracked(0); collect_tracked(1)
    awaiting_start = '--awaiting' in sys.argv      # receiver polled once before: state AWAITING, waker present
    S = [State(i) for i in range(K + 1)]
    for st in S:
        for k in TRACK: st.loc[k] = BV('L_%d_%s_%s_%s_%d' % (k[0], k[1], k[2], k[3], S.index(st)))
    sol = z3.Solver()
    s0 = S[0]
    sol.add(s0.pc[0] == e0, s0.pc[1] == e1, s0.released == 0, z3.Not(s0.bad), z3.Not(s0.race))
    sol.add(s0.state == (2 if awaiting_start else 0), s0.aw_init == awaiting_start)
    for t in (0, 1):
        sol.add(s0.A[t] == (1 if (awaiting_start and t == 1) else 0), s0.ret[t] == 0)
        for u in (0, 1): sol.add(s0.C[t][u] == (1 if (awaiting_start and t == 1 and u == 1) else 0), s0.P[t][u] == 0)
    # the receiver published AWAITING with a Release CAS in its earlier poll
    for u in (0, 1): sol.add(s0.RV[u] == (1 if (awaiting_start and u == 1) else 0))
    sched = [z3.Int(f'sched_{i}') for i in range(K)]
    END = -1; WRAP = -2   # -2: endpoint wrapper decides about release, then -3 = finished
    for i in range(K):
        a, b = S[i], S[i + 1]
        sol.add(z3.Or(sched[i] == 0, sched[i] == 1))
        for tid in (0, 1):
            g = sched[i] == tid
            cases = step_thread(tid, a, i)
            # running thread must not be finished
            o = 1 - tid
            # default: wrapper step (pc == -1 -> decide release -> -3)
            want_release = (a.ret[tid] == 2) if tid == 0 else (a.ret[tid] != 0)
            ordered = a.A[o] <= a.C[tid][o]
            def frame(var_b, var_a): return var_b == var_a
            wrapper = z3.And(b.pc[tid] == -3, b.released == a.released + z3.If(want_release, 1, 0),
                             b.race == z3.Or(a.race, z3.And(want_release, z3.Not(ordered))),
                             b.state == a.state, b.aw_init == a.aw_init, b.bad == a.bad,
                             *[b.C[t][u] == a.C[t][u] for t in (0, 1) for u in (0, 1)], *[b.P[t][u] == a.P[t][u] for t in (0, 1) for u in (0, 1)],
                             *[b.RV[u] == a.RV[u] for u in (0, 1)], *[b.A[t] == a.A[t] for t in (0, 1)], *[b.ret[t] == a.ret[t] for t in (0, 1)],
                             *[b.loc[k] == a.loc[k] for k in TRACK])
            stutter = z3.And(b.pc[tid] == -3, b.released == a.released, b.race == a.race,
                             b.state == a.state, b.aw_init == a.aw_init, b.bad == a.bad,
                             *[b.C[t][u] == a.C[t][u] for t in (0, 1) for u in (0, 1)], *[b.P[t][u] == a.P[t][u] for t in (0, 1) for u in (0, 1)],
                             *[b.RV[u] == a.RV[u] for u in (0, 1)], *[b.A[t] == a.A[t] for t in (0, 1)], *[b.ret[t] == a.ret[t] for t in (0, 1)],
                             *[b.loc[k] == a.loc[k] for k in TRACK])
            trans = [z3.Implies(z3.And(g, a.pc[tid] == -1), wrapper), z3.Implies(z3.And(g, a.pc[tid] == -3), stutter)]
            for nid, nxt, env, sh in cases:
                eqs = [b.pc[tid] == nxt, b.state == sh['state'], b.released == sh['released'], b.aw_init == sh['aw'], b.bad == sh['bad'], b.race == sh['race']]
                eqs += [b.C[t][u] == sh['C'][t][u] for t in (0, 1) for u in (0, 1)] + [b.P[t][u] == sh['P'][t][u] for t in (0, 1) for u in (0, 1)]
                eqs += [b.RV[u] == sh['RV'][u] for u in (0, 1)] + [b.A[t] == sh['A'][t] for t in (0, 1)] + [b.ret[t] == sh['ret'][t] for t in (0, 1)]
                eqs += [b.loc[k] == env.get(k, a.loc[k]) for k in TRACK]
                trans.append(z3.Implies(z3.And(g, a.pc[tid] == nid), z3.And(*eqs)))
            sol.add(*trans)
            sol.add(z3.Implies(g, b.pc[o] == a.pc[o]))
    fin = S[K]
    done = z3.And(fin.pc[0] == -3, fin.pc[1] == -3)
    import time
    for name, prop in [('exactly one release', fin.released == 1), ('no panic / cell misuse / access after release', z3.Not(fin.bad)),
                       ('release happens-after every access of the other endpoint', z3.Not(fin.race))]:
        sol.push(); sol.add(done, z3.Not(prop)); t0 = time.time(); r = sol.check(); dt = time.time() - t0
        print(f'[{name}] violation query: {r}  ({dt:.1f}s, k={K}, nodes={len(NODES[0])}+{len(NODES[1])})')
        if r == z3.sat:
            m = sol.model(); tr = []
            for i in range(K):
                t = m[sched[i]].as_long(); pc = m[S[i].pc[t]].as_long()
                if pc == -3: continue
                lab = 'wrapper' if pc == -1 else NODES[t][pc].fn['name'].split('>::')[-1] + ':' + NODES[t][pc].bb
                tr.append(f"{'S' if t == 0 else 'R'}:{lab}[st={m[S[i].state]}]")
            print('   schedule:', ' '.join(tr))
        sol.pop()
    sol.push(); sol.add(done); print('[vacuity] some complete run exists:', sol.check()); sol.pop()

main()
